#!/bin/bash
# usage: jobsum.sh <harness> <args>  -- one-line summary of a single job
/verif/bin/sver job -h "$1" -args "$2" 2>/dev/null | python3 -c "
import sys,json
d=json.load(sys.stdin)
print('$1($2)', d.get('status'), 'exec=%.1fs wall=%.1fs solver=%.1fs states=%s'%(d.get('exec_s',0),d.get('wall_s',0),d.get('solver_ms',0)/1000,d['stats']['States']), 'reach='+','.join(sorted(d.get('reach',{}))), 'obl=%s/%s inconcl=%s'%(d.get('discharged'),d.get('obligations'),d.get('inconclusive')), [v for v in d.get('violations',[])][:2] if d.get('violations') else '')
"
