//go:build verif

package sipsp

// C09: name-addr values are decomposed as written. The values are built from
// shapes whose components are known by construction: literal delimiters,
// symbolic component windows (class-constrained) and symbolic optional LWS.

type nb struct {
	b []byte
}

func (x *nb) lit(s string) { x.b = append(x.b, s...) }

// ci appends s with every letter in a symbolic (arbitrary) letter case.
func (x *nb) ci(s string) {
	w := vBytes(len(s))
	vAssume(refEqFold(w, s))
	x.b = append(x.b, w...)
}

// lws appends one of: nothing, SP, HT, CRLF SP (a fold) - chosen symbolically.
func (x *nb) lws() {
	switch vChoice(4) {
	case 1:
		x.b = append(x.b, ' ')
	case 2:
		x.b = append(x.b, '\t')
	case 3:
		x.b = append(x.b, '\r', '\n', ' ')
	}
}

// sym appends n symbolic bytes of a class: 0 uri chars (no <>",; WS CR LF),
// 1 token chars (alnum . - _), 2 quoted-string content (no " \ CR LF), 3 digits
func (x *nb) sym(n, class int) (int, int) {
	s := len(x.b)
	w := vBytes(n)
	for i := range w {
		c := w[i]
		switch class {
		case 0:
			vAssume(c > ' ' && c < 127 && c != '<' && c != '>' && c != '"' && c != ',' && c != ';' && c != '*')
		case 1:
			vAssume(isAlnum(c) || c == '.' || c == '-' || c == '_')
		case 2:
			vAssume(c >= ' ' && c < 127 && c != '"' && c != '\\')
		case 3:
			vAssume(c >= '0' && c <= '9')
		}
	}
	x.b = append(x.b, w...)
	return s, len(x.b)
}

// parseVia: 0 ParseNameAddrPVal(h) directly; 1 through ParseHdrLine (then the
// value follows "Name:") - used to check the kind of header reported.
func c09Parse(h HdrT, via int, val []byte) (*PFromBody, int, ErrorHdr, int) {
	var pf PFromBody
	if via == 0 || via == 2 {
		buf := append(append([]byte(nil), val...), '\r', '\n', 'X')
		if via == 0 {
			o, e := ParseNameAddrPVal(h, buf, 0, &pf)
			return &pf, o, e, 0
		}
		// via 2: the value starts at offset 7 and arrives in two pieces
		const k = 7
		text := buf
		buf = vPad(k, []byte{':', ' '}, text)
		if c := vChoice(len(text)); c > 0 {
			o, e := ParseNameAddrPVal(h, buf[:k+c], k, &pf)
			if e == ErrHdrMoreBytes {
				o, e = ParseNameAddrPVal(h, buf, o, &pf)
				vReach("resumed")
				return &pf, o, e, k
			}
			pf.Reset()
		}
		o, e := ParseNameAddrPVal(h, buf, k, &pf)
		return &pf, o, e, k
	}
	names := [...]string{HdrFrom: "From:", HdrTo: "To:", HdrContact: "Contact:", HdrPAI: "P-Asserted-Identity:"}
	pre := names[h]
	buf := append([]byte(pre), val...)
	buf = append(buf, '\r', '\n', 'X')
	var hd Hdr
	var pv PHdrVals
	k := 0
	var o int
	var e ErrorHdr
	if via == 3 {
		// via 3: the header line starts at offset 5 and arrives in two pieces
		k = 5
		text := buf
		buf = vPad(k, []byte{'\r', '\n'}, text)
		o, e = k, ErrHdrMoreBytes
		if c := vChoice(len(text)); c > 0 {
			o, e = ParseHdrLine(buf[:k+c], k, &hd, &pv)
			if e != ErrHdrMoreBytes {
				hd.Reset()
				pv.Reset()
				o, e = k, ErrHdrMoreBytes
			} else {
				vReach("resumed")
			}
		}
		o, e = ParseHdrLine(buf, o, &hd, &pv)
	} else {
		o, e = ParseHdrLine(buf, 0, &hd, &pv)
	}
	var r *PFromBody
	switch h {
	case HdrFrom:
		r = &pv.From
	case HdrTo:
		r = &pv.To
	case HdrContact:
		r = pv.Contacts.GetContact(0)
	case HdrPAI:
		r = pv.PAIs.GetPAI(0)
	}
	if r == nil {
		r = &pf
	}
	return r, o, e, k + len(pre)
}

// H_C09_shape(h, via, shape, w): shapes
//
//	0 <U>             1 "Q" <U>;tag=T        2 tok <U>;p=v;tag=T
//	3 U;tag=T (bare)  4 <U>;expires=D;q=0.D  5 <U>;lr          6 * (Contact only)
//	7 <U>;tag="Q"     8 tok tok<U>   9-11 see below   12 <U>;a=D;bc;def=T;ghijklm=D;no=D;p;qrs
func H_C09_shape(hh, via, shape, w int) {
	h := HdrT(hh)
	var x nb
	ns, ne, us, ue, ps, pe, ts, te := 0, 0, 0, 0, 0, 0, 0, 0
	hasTag, hasExp, hasQ, lr, star := false, false, false, false, false
	var ds, de, qs int
	switch shape {
	case 0:
		x.lws()
		x.lit("<")
		us, ue = x.sym(w, 0)
		x.lit(">")
	case 1:
		x.lws()
		ns = len(x.b)
		x.lit("\"")
		x.sym(w, 2)
		x.lit("\"")
		ne = len(x.b)
		x.lws()
		x.lit("<")
		us, ue = x.sym(2, 0)
		x.lit(">")
		x.lws()
		x.lit(";")
		x.lws()
		ps = len(x.b)
		x.ci("tag")
		x.lws()
		x.lit("=")
		x.lws()
		ts, te = x.sym(2, 1)
		pe = te
		hasTag = true
	case 2:
		ns = len(x.b)
		x.sym(w, 1)
		ne = len(x.b)
		x.lit(" <")
		us, ue = x.sym(2, 0)
		x.lit(">;")
		ps = len(x.b)
		x.sym(1, 1)
		x.lit("=v")
		x.lws()
		x.lit(";")
		x.lws()
		x.ci("tag")
		x.lit("=")
		ts, te = x.sym(2, 1)
		pe = te
		hasTag = true
	case 3:
		x.lws()
		us, ue = x.sym(w, 0)
		x.lit(";")
		ps = len(x.b)
		x.ci("tag")
		x.lit("=")
		ts, te = x.sym(2, 1)
		pe = te
		hasTag = true
	case 4:
		x.lit("<")
		us, ue = x.sym(1, 0)
		x.lit(">;")
		ps = len(x.b)
		x.ci("expires")
		x.lit("=")
		ds, de = x.sym(w, 3)
		x.lit(";")
		x.ci("q")
		x.lit("=0.")
		qs, _ = x.sym(2, 3)
		pe = len(x.b)
		hasExp, hasQ = true, true
	case 5:
		x.lit("<")
		us, ue = x.sym(w, 0)
		x.lit(">")
		x.lws()
		x.lit(";")
		ps = len(x.b)
		x.ci("lr")
		pe = len(x.b)
		lr = true
	case 6:
		x.lws()
		us = len(x.b)
		x.lit("*")
		ue = len(x.b)
		star = true
	case 7:
		x.lit("<")
		us, ue = x.sym(1, 0)
		x.lit(">;")
		ps = len(x.b)
		x.lit("tag=")
		ts = len(x.b)
		x.lit("\"")
		x.sym(w, 2)
		x.lit("\"")
		te = len(x.b)
		pe = te
		hasTag = true
	case 8:
		ns = len(x.b)
		x.sym(w, 1)
		x.lit(" ")
		x.sym(1, 1)
		ne = len(x.b)
		x.lit("<")
		us, ue = x.sym(2, 0)
		x.lit(">")
	case 9: // quoted display name with an escaped quote / backslash and a fold inside
		ns = len(x.b)
		x.lit("\"a\\")
		e := vByte()
		vAssume(e != '\r' && e != '\n')
		x.b = append(x.b, e)
		x.lws()
		x.sym(w, 2)
		x.lit("\"")
		ne = len(x.b)
		x.lws()
		x.lit("<")
		us, ue = x.sym(1, 0)
		x.lit(">")
	case 10: // bare URI, whitespace before the parameters, several parameters
		us, ue = x.sym(w, 0)
		x.lws()
		x.lit(";")
		x.lws()
		ps = len(x.b)
		x.sym(1, 1)
		x.lws()
		x.lit(";")
		x.ci("tag")
		x.lws()
		x.lit("=")
		x.lws()
		ts, te = x.sym(1, 1)
		x.lit(";")
		x.ci("lr")
		pe = len(x.b)
		hasTag, lr = true, true
	case 11: // expires first, then tag, then a valueless parameter at the end
		x.lit("<")
		us, ue = x.sym(1, 0)
		x.lit(">;")
		ps = len(x.b)
		x.ci("expires")
		x.lit("=")
		ds, de = x.sym(w, 3)
		x.lws()
		x.lit(";")
		x.ci("tag")
		x.lit("=")
		ts, te = x.sym(1, 1)
		x.lit(";x")
		pe = len(x.b)
		hasExp, hasTag = true, true
	case 13: // a valueless lr in the middle, followed by white space and more parameters (bare URI when w is odd)
		if w%2 == 1 {
			us, ue = x.sym(2, 0)
		} else {
			x.lit("<")
			us, ue = x.sym(2, 0)
			x.lit(">")
		}
		x.lit(";")
		ps = len(x.b)
		x.ci("lr")
		x.lws()
		x.lit(";")
		x.lws()
		o1, o2 := x.sym(1, 1)
		vAssume(!refEqFold(x.b[o1:o2], "q"))
		x.lit("=")
		x.sym(1, 1)
		pe = len(x.b)
		lr = true
	case 12: // other parameters whose names have the length of q / lr / tag / expires, with and without a value
		x.lit("<")
		us, ue = x.sym(1, 0)
		x.lit(">;")
		ps = len(x.b)
		a1, b1 := x.sym(1, 1)
		x.lit("=")
		x.sym(1, 3)
		x.lit(";")
		a2, b2 := x.sym(2, 1)
		x.lit(";")
		a3, b3 := x.sym(3, 1)
		x.lit("=")
		x.sym(w, 1)
		x.lit(";")
		a4, b4 := x.sym(7, 1)
		x.lit("=")
		x.sym(1, 3)
		x.lit(";")
		a5, b5 := x.sym(2, 1)
		x.lit("=")
		x.sym(1, 3)
		x.lit(";")
		a6, b6 := x.sym(1, 1)
		x.lit(";")
		a7, b7 := x.sym(3, 1)
		pe = len(x.b)
		vAssume(!refEqFold(x.b[a1:b1], "q") && !refEqFold(x.b[a2:b2], "lr") && !refEqFold(x.b[a3:b3], "tag") && !refEqFold(x.b[a4:b4], "expires"))
		vAssume(!refEqFold(x.b[a5:b5], "lr") && !refEqFold(x.b[a6:b6], "q") && !refEqFold(x.b[a7:b7], "tag"))
	}
	vend := len(x.b)
	if pe > 0 {
		vend = pe
	} else if ue > 0 {
		vend = ue
		if shape != 3 && shape != 6 && shape != 10 && !(shape == 13 && w%2 == 1) {
			vend = ue + 1 // closing '>'
		}
	}
	pf, o, e, k := c09Parse(h, via, x.b)
	vObs("o", o)
	vObs("e", int(e))
	vAssert("accepted", e == 0)
	if e != 0 {
		return
	}
	vAssert("consumed-line", o == k+len(x.b)+2)
	vAssert("kind-of-header", pf.Type == h)
	vAssert("uri-as-written", pfIs(pf.URI, k+us, k+ue))
	if ne > ns {
		// trailing whitespace after the display name is tolerated (documented)
		vAssert("display-name", int(pf.Name.Offs) == k+ns && pfEnd(pf.Name) >= k+ne && pfEnd(pf.Name) <= k+us)
	} else {
		vAssert("no-display-name", pf.Name.Len == 0)
	}
	if pe > ps {
		vAssert("params-span", int(pf.Params.Offs) == k+ps && pfEnd(pf.Params) >= k+pe && pfEnd(pf.Params) <= k+len(x.b))
	} else {
		vAssert("no-params", pf.Params.Len == 0)
	}
	if hasTag {
		vAssert("tag-as-written", pfIs(pf.Tag, k+ts, k+te))
	} else {
		vAssert("no-tag", pf.Tag.Len == 0)
	}
	vAssert("lr-indicator", pf.LR == lr)
	vAssert("star-indicator", pf.Star == star)
	vAssert("has-expires", pf.HasExpires == hasExp)
	if hasExp {
		ref, sat := refDec(x.b[ds:de], refU32Max)
		vAssert("expires-value", vOr(vAnd(sat, pf.Expires == refU32Max), vAnd(!sat, uint64(pf.Expires) == ref)))
	}
	if hasQ {
		q := int(x.b[qs]-'0')*100 + int(x.b[qs+1]-'0')*10
		vAssert("q-value", int(pf.Q) == q)
	} else {
		vAssert("no-q", pf.Q == 0)
	}
	vAssert("whole-value-span", int(pf.V.Offs) <= k+us && pfEnd(pf.V) >= k+vend && pfEnd(pf.V) <= k+len(x.b))
	vReach("end")
}

// H_C09_list: comma separated values; commas inside quotes and <> do not split.
// which: 0 Contact, 1 PAI.  cap: caller array capacity for contacts.
func H_C09_list(which, ccap, w int) {
	var x nb
	x.lit("\"a,b\" <")
	x.sym(w, 0)
	x.lit(",y>;")
	p1s := len(x.b)
	x.lit("expires=")
	d1s, d1e := x.sym(2, 3)
	x.lws()
	x.lit(",")
	x.lws()
	x.lit("<")
	u2s, u2e := x.sym(1, 0)
	x.lit(">;expires=")
	d2s, d2e := x.sym(2, 3)
	x.lit(",<c>")
	buf := append(append([]byte(nil), x.b...), '\r', '\n', 'X')
	e1, _ := refDec(x.b[d1s:d1e], refU32Max)
	e2, _ := refDec(x.b[d2s:d2e], refU32Max)
	if which == 0 {
		var c PContacts
		var cb [3]PFromBody
		c.Init(cb[:ccap])
		o, e := ParseAllContactValues(buf, 0, &c)
		vObs("o", o)
		vObs("e", int(e))
		vAssert("accepted", e == 0 && o == len(buf)-1)
		if e != 0 {
			return
		}
		vAssert("value-count", c.N == 3)
		if ccap >= 1 {
			// first value: spans end at its last parameter value, whatever LWS precedes the comma
			vAssert("first-value-span", pfIs(c.Vals[0].V, 0, d1e))
			vAssert("first-value-params", pfIs(c.Vals[0].Params, p1s, d1e))
		}
		mn := vIte(e1 < e2, int(e1), int(e2))
		mx := vIte(e1 < e2, int(e2), int(e1))
		vAssert("max-expires-over-all-values", int(c.MaxExpires) == mx)
		vAssert("min-expires-over-all-values", int(c.MinExpires) == vIte(mn < 0, mn, 0)) // third value has no expires: 0
		if ccap >= 2 {
			vAssert("second-value-uri", pfIs(c.Vals[1].URI, u2s, u2e))
		}
		vAssert("more-indicator", c.More() == (ccap < 3))
		vAssert("first-and-last-retrievable", c.GetContact(0) != nil && c.GetContact(2) != nil)
	} else {
		var c PPAIs
		o, e := ParseAllPAIValues(buf, 0, &c)
		vObs("o", o)
		vObs("e", int(e))
		vAssert("accepted", e == 0 && o == len(buf)-1)
		if e != 0 {
			return
		}
		vAssert("value-count", c.N == 3)
		vAssert("first-value-span", pfIs(c.Vals[0].V, 0, d1e))
		vAssert("first-value-params", pfIs(c.Vals[0].Params, p1s, d1e))
		vAssert("second-value-uri", pfIs(c.Vals[1].URI, u2s, u2e))
	}
	vReach("end")
}

// H_C09_hdrs: header count and expires summary over two Contact headers and
// an Expires header (through ParseHeaders).
func H_C09_hdrs(w int) {
	var x nb
	x.lit("Contact:<a>;expires=")
	d1s, d1e := x.sym(w, 3)
	x.lit("\r\nX:y\r\nm:<b>,<c>;expires=")
	d2s, d2e := x.sym(w, 3)
	x.lit("\r\nExpires:")
	d3s, d3e := x.sym(w, 3)
	x.lit("\r\nP-Asserted-Identity: <p>\r\nP-Asserted-Identity: \"q\" <r>, <s>\r\n\r\n")
	var hl HdrLst
	var hb [8]Hdr
	hl.Hdrs = hb[:]
	var pv PHdrVals
	var cb [1]PFromBody
	pv.Init(cb[:])
	o, e := ParseHeaders(x.b, 0, &hl, &pv)
	vObs("o", o)
	vAssert("accepted", e == 0 && o == len(x.b))
	if e != 0 {
		return
	}
	e1, _ := refDec(x.b[d1s:d1e], refU32Max)
	e2, _ := refDec(x.b[d2s:d2e], refU32Max)
	e3, _ := refDec(x.b[d3s:d3e], refU32Max)
	vAssert("value-count-includes-dropped", pv.Contacts.N == 3)
	vAssert("header-count", pv.Contacts.HNo == 2)
	vAssert("pai-value-and-header-count", pv.PAIs.N == 3 && pv.PAIs.HNo == 2)
	m12 := vIte(e1 < e2, int(e2), int(e1))
	vAssert("contacts-max-expires", int(pv.Contacts.MaxExpires) == m12)
	// the value <b> has no expires parameter: it counts as 0 for the minimum
	vAssert("contacts-min-expires-over-all-headers", pv.Contacts.MinExpires == 0)
	mx, ok := pv.MaxExpires()
	vAssert("summary-max-expires", vAnd(ok, int(mx) == vIte(uint64(m12) < e3, int(e3), m12)))
	vReach("end")
}

// H_C09_minmax: two Contact headers, one value each, both with expires:
// minimum and maximum summarise all values of all headers.
func H_C09_minmax(w int) {
	var x nb
	x.lit("m:<a>;expires=")
	d1s, d1e := x.sym(w, 3)
	x.lit("\r\nContact: <b>;expires=")
	d2s, d2e := x.sym(w, 3)
	x.lit("\r\n\r\n")
	var hl HdrLst
	var hb [4]Hdr
	hl.Hdrs = hb[:]
	var pv PHdrVals
	var cb [2]PFromBody
	pv.Init(cb[:vChoice(3)])
	o, e := ParseHeaders(x.b, 0, &hl, &pv)
	vAssert("accepted", e == 0 && o == len(x.b))
	if e != 0 {
		return
	}
	e1, _ := refDec(x.b[d1s:d1e], refU32Max)
	e2, _ := refDec(x.b[d2s:d2e], refU32Max)
	vAssert("value-and-header-count", pv.Contacts.N == 2 && pv.Contacts.HNo == 2)
	vAssert("max-expires", uint64(pv.Contacts.MaxExpires) == uint64(vIte(e1 < e2, int(e2), int(e1))))
	vAssert("min-expires", uint64(pv.Contacts.MinExpires) == uint64(vIte(e1 < e2, int(e1), int(e2))))
	vReach("end")
}
