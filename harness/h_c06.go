//go:build verif

package sipsp

// C06: message framing: Content-Length, body modes, pipelining.

// H_C06_clen: skeleton + "Content-Length:" + d symbolic digits + CRLF CRLF + m body bytes.
func H_C06_clen(d, m int) { c06clen(d, m, 0) }

// H_C06_clen_at: the same message starting at offset k of the buffer (as the
// second message of a pipelined stream does).
func H_C06_clen_at(d, m, k int) { c06clen(d, m, k) }

func c06clen(d, m, k int) { c06clenv(d, m, k, 0) }

// H_C06_clen_chunk: the same with the Content-Length header written in one of
// its legal variants (v: 1 "Content-Length :", 2 "l\t : ", 3 "CONTENT-LENGTH:")
// and the message delivered in two pieces (every cut, chosen symbolically;
// not combined with the no-more-data flag).
func H_C06_clen_chunk(d, m, k, v int) { c06clenv(d, m, k, v) }

func c06clenv(d, m, k, v int) {
	names := [...]string{"Content-Length: ", "Content-Length : ", "l\t : ", "CONTENT-LENGTH:"}
	pre := "INVITE sip:a SIP/2.0\r\nf:a\r\n" + names[v]
	dig := vBytes(d)
	vAssume(vAllDigits(dig))
	buf := append([]byte(pre), dig...)
	buf = append(buf, '\r', '\n', '\r', '\n')
	hdrEnd := k + len(buf)
	for i := 0; i < m; i++ {
		buf = append(buf, 'x')
	}
	if k > 0 {
		buf = vPad(k, []byte{'\r', '\n'}, buf)
	}
	flags := vU8() & 7
	var msg PSIPMsg
	msg.Init(nil, nil, nil)
	o := k
	if v > 0 {
		if c := vChoice(len(buf) - k); c > 0 && flags&SIPMsgNoMoreDataF == 0 {
			var e1 ErrorHdr
			o, e1 = ParseSIPMsg(buf[:k+c], k, &msg, flags)
			if e1 != ErrHdrMoreBytes {
				// definitive on a prefix: C03 territory; parse again in one piece
				msg.Reset()
				o = k
			}
		}
	}
	ret, e := ParseSIPMsg(buf, o, &msg, flags)
	n, sat := refDec(dig, 1<<24)
	tooBig := vOr(sat, d > 9)
	skip := flags&SIPMsgSkipBodyF != 0
	nomore := flags&SIPMsgNoMoreDataF != 0
	vObs("ret", ret)
	vObs("e", int(e))
	vAssert("parsed-exactly-on-success", msg.Parsed() == (e == 0))
	if tooBig {
		vAssert("oversized-clen-rejected", e != 0 && e != ErrHdrMoreBytes)
		vReach("toobig")
		return
	}
	if skip {
		vAssert("skip-body-returns-body-start", e == 0 && ret == hdrEnd && int(msg.Body.Offs) == hdrEnd && msg.Body.Len == 0)
		vReach("skip")
		return
	}
	if n <= uint64(m) {
		vAssert("complete-body-success", e == 0)
		if e == 0 {
			vAssert("body-is-n-bytes", int(msg.Body.Offs) == hdrEnd && uint64(msg.Body.Len) == n)
			vAssert("ret-after-body", uint64(ret) == uint64(hdrEnd)+n)
		}
		vReach("complete")
	} else if nomore {
		vAssert("truncated-body-in-no-more-data-mode", e == 0 && ret == len(buf) && int(msg.Body.Offs) == hdrEnd && int(msg.Body.Len) == m)
		vReach("truncated")
	} else {
		vAssert("short-body-needs-more", e == ErrHdrMoreBytes)
		vReach("more")
	}
	vReach("end")
}

// H_C06_noclen: no Content-Length header; m body bytes; all 8 flag sets.
func H_C06_noclen(m int) {
	buf := []byte("INVITE sip:a SIP/2.0\r\nf:a\r\n\r\n")
	hdrEnd := len(buf)
	body := vBytes(m)
	buf = append(buf, body...)
	flags := vU8() & 7
	var msg PSIPMsg
	msg.Init(nil, nil, nil)
	ret, e := ParseSIPMsg(buf, 0, &msg, flags)
	skip := flags&SIPMsgSkipBodyF != 0
	req := flags&SIPMsgCLenReqF != 0
	vObs("ret", ret)
	vObs("e", int(e))
	if skip && req {
		vAssert("missing-clen-reported", e == ErrHdrNoCLen && ret == hdrEnd)
	} else if skip {
		vAssert("skip-body-returns-body-start", e == 0 && ret == hdrEnd && msg.Body.Len == 0 && int(msg.Body.Offs) == hdrEnd)
	} else if req {
		vAssert("clen-required-empty-body", e == 0 && ret == hdrEnd && msg.Body.Len == 0 && int(msg.Body.Offs) == hdrEnd)
	} else {
		vAssert("body-is-rest-of-buffer", e == 0 && ret == len(buf) && int(msg.Body.Offs) == hdrEnd && int(msg.Body.Len) == m)
	}
	vReach("end")
}

// H_C06_pipe: two messages back to back; the second one parsed from the
// returned offset on a reset object equals the second message parsed alone.
func H_C06_pipe(w1, w2, b1 int) {
	a := vBytes(w1)
	c := vBytes(w2)
	// the windows are header values: no line ends inside them
	for i := range a {
		vAssume(a[i] != '\r' && a[i] != '\n')
	}
	for i := range c {
		vAssume(c[i] != '\r' && c[i] != '\n')
	}
	m1 := append([]byte("INVITE sip:a SIP/2.0\r\nX:"), a...)
	m1 = append(m1, "\r\nl:"...)
	m1 = append(m1, byte('0'+b1))
	m1 = append(m1, "\r\n\r\n"...)
	for i := 0; i < b1; i++ {
		m1 = append(m1, 'b')
	}
	m2 := append([]byte("SIP/2.0 200 OK\r\nf:"), c...)
	m2 = append(m2, "\r\nl:0\r\n\r\n"...)
	both := append(append([]byte(nil), m1...), m2...)
	var p, q PSIPMsg
	p.Init(nil, nil, nil)
	q.Init(nil, nil, nil)
	r1, e1 := ParseSIPMsg(both, 0, &p, 0)
	vObs("r1", r1)
	vObs("e1", int(e1))
	if e1 != 0 {
		return
	}
	vAssert("first-ends-at-its-length", r1 == len(m1))
	p.Reset()
	r2, e2 := ParseSIPMsg(both, r1, &p, 0)
	ra, ea := ParseSIPMsg(m2, 0, &q, 0)
	vObs("r2", r2)
	vObs("ra", ra)
	vAssert("second-same-verdict", e2 == ea && r2 == ra+r1)
	if ea == 0 && e2 == 0 {
		k := r1
		vAssert("second-same-fields", pfShift(q.FL.Version, p.FL.Version, k) && pfShift(q.FL.Reason, p.FL.Reason, k) && q.HL.N == p.HL.N && q.HL.PFlags == p.HL.PFlags &&
			pfShift(q.Body, p.Body, k) && len(q.RawMsg) == len(p.RawMsg))
		vAssert("second-same-values", vAnd(q.FL.Status == p.FL.Status, fromShift(&q.PV.From, &p.PV.From, k)))
	}
	vReach("end")
}

// H_C06_pipe3: three messages back to back, the first at offset k: each parse
// from the previously returned offset on a reset object ends exactly at the
// message boundary known by construction.
func H_C06_pipe3(w, k int) {
	a := vBytes(w)
	noEOL(a)
	junk := vBytes(2)
	m1 := append([]byte("INVITE sip:a SIP/2.0\r\nm:"), a...)
	m1 = append(m1, "\r\nl: 3\r\n\r\nabc"...)
	m2 := []byte("SIP/2.0 200 OK\r\nf:a\r\nContent-Length:0\r\n\r\n")
	m3 := append([]byte("BYE sip:b SIP/2.0\r\nl:1\r\ni:"), a...)
	m3 = append(m3, "\r\n\r\nZ"...)
	all := append(append(append([]byte(nil), m1...), m2...), m3...)
	buf := vPad(k, junk, all)
	var p PSIPMsg
	p.Init(nil, nil, nil)
	r1, e1 := ParseSIPMsg(buf, k, &p, 0)
	vObs("r1", r1)
	vObs("e1", int(e1))
	if e1 != 0 {
		vReach("first-rejected")
		return
	}
	vAssert("first-boundary", r1 == k+len(m1) && int(p.Body.Offs) == r1-3 && p.Body.Len == 3 && len(p.RawMsg) == len(m1))
	p.Reset()
	r2, e2 := ParseSIPMsg(buf, r1, &p, 0)
	vAssert("second-boundary", e2 == 0 && r2 == r1+len(m2) && p.Body.Len == 0 && !p.Request() && len(p.RawMsg) == len(m2))
	p.Reset()
	r3, e3 := ParseSIPMsg(buf, r2, &p, 0)
	vObs("e3", int(e3))
	if e3 == 0 {
		vAssert("third-boundary", r3 == r2+len(m3) && p.Body.Len == 1 && p.FL.MethodNo == MBye && len(p.RawMsg) == len(m3))
		vReach("third-accepted")
	}
	vReach("end")
}
