//go:build verif

package sipsp

// Reference functions: short, non-incremental, whole-input-available code
// written for the checks (trusted base). They are executed by the same
// symbolic engine and compiled natively for replay.

func refLower(c byte) byte {
	if c >= 'A' && c <= 'Z' {
		return c + 32
	}
	return c
}

// refEqFold reports whether name equals lit ignoring ASCII letter case
// (no branching on symbolic bytes: result is one boolean expression).
func refEqFold(name []byte, lit string) bool {
	if len(name) != len(lit) {
		return false
	}
	r := true
	for i := 0; i < len(lit); i++ {
		c := name[i]
		l := lit[i]
		if l >= 'a' && l <= 'z' {
			r = vAnd(r, vOr(c == l, c == l-32))
		} else {
			r = vAnd(r, c == l)
		}
	}
	return r
}

func refEqExact(name []byte, lit string) bool {
	if len(name) != len(lit) {
		return false
	}
	r := true
	for i := 0; i < len(lit); i++ {
		r = vAnd(r, name[i] == lit[i])
	}
	return r
}

// the header names of the property statement, literal copy (lower case)
var refHdrNames = [...]struct {
	n string
	t HdrT
}{
	{"from", HdrFrom}, {"f", HdrFrom}, {"to", HdrTo}, {"t", HdrTo},
	{"call-id", HdrCallID}, {"i", HdrCallID}, {"cseq", HdrCSeq},
	{"via", HdrVia}, {"v", HdrVia}, {"max-forwards", HdrMaxFwd},
	{"content-length", HdrCLen}, {"l", HdrCLen}, {"contact", HdrContact}, {"m", HdrContact},
	{"expires", HdrExpires}, {"user-agent", HdrUA}, {"record-route", HdrRecordRoute},
	{"route", HdrRoute}, {"p-asserted-identity", HdrPAI},
}

// refHdrType: linear scan of the literal table; returns the type as a value
// built with vIte (no forking).
func refHdrType(name []byte) int {
	t := int(HdrOther)
	for i := len(refHdrNames) - 1; i >= 0; i-- {
		t = vIte(refEqFold(name, refHdrNames[i].n), int(refHdrNames[i].t), t)
	}
	return t
}

var refMethodNames = [...]struct {
	n string
	m SIPMethod
}{
	{"REGISTER", MRegister}, {"INVITE", MInvite}, {"ACK", MAck}, {"BYE", MBye}, {"PRACK", MPrack},
	{"CANCEL", MCancel}, {"OPTIONS", MOptions}, {"SUBSCRIBE", MSubscribe}, {"NOTIFY", MNotify},
	{"UPDATE", MUpdate}, {"INFO", MInfo}, {"REFER", MRefer}, {"PUBLISH", MPublish}, {"MESSAGE", MMessage},
}

func refMethod(name []byte) int {
	m := int(MOther)
	for i := len(refMethodNames) - 1; i >= 0; i-- {
		m = vIte(refEqExact(name, refMethodNames[i].n), int(refMethodNames[i].m), m)
	}
	return m
}

// refDec: decimal value of a digit string (digits are assumed). The last 19
// digits are accumulated exactly in 64 bits (10^19 < 2^64); the value exceeds
// lim (sat) iff one of the digits before them is not '0' or the 19-digit
// value is above lim. val is meaningful only when !sat.
func refDec(d []byte, lim uint64) (val uint64, sat bool) {
	k := 0
	if len(d) > 19 {
		k = len(d) - 19
	}
	for i := 0; i < k; i++ {
		sat = vOr(sat, d[i] != '0')
	}
	for i := k; i < len(d); i++ {
		val = val*10 + uint64(d[i]-'0')
	}
	sat = vOr(sat, val > lim)
	return
}

func vAllDigits(d []byte) bool {
	r := true
	for i := 0; i < len(d); i++ {
		r = vAnd(r, d[i] >= '0' && d[i] <= '9')
	}
	return r
}

// refHdrTypeB: branching variant of refHdrType (forks on the name bytes, so
// the result is concrete in every state).
func refHdrTypeB(name []byte) int {
	for i := 0; i < len(refHdrNames); i++ {
		n := refHdrNames[i].n
		if len(n) != len(name) {
			continue
		}
		eq := true
		for k := 0; k < len(n); k++ {
			if refLower(name[k]) != n[k] {
				eq = false
				break
			}
		}
		if eq {
			return int(refHdrNames[i].t)
		}
	}
	return int(HdrOther)
}
