//go:build verif

package sipsp

func H_probe_cseq(n int) {
	buf := vBytes(n)
	var one PCSeqBody
	o, e := ParseCSeqVal(buf, 0, &one)
	vObs("offs", o)
	vObs("err", int(e))
	vAssert("range", o >= 0 && o <= n)
	vReach("end")
}

func H_probe_cseq2(n int) {
	buf := vBytes(n)
	var one, two PCSeqBody
	o, e := ParseCSeqVal(buf, 0, &one)
	o2, e2 := ParseCSeqVal(buf, 0, &two)
	vAssert("same", o == o2 && e == e2)
	vReach("end")
}
