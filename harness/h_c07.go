//go:build verif

package sipsp

// C07: header block tokenisation is faithful to the text.

const refMaxHdrs = 6

type refHdr struct{ ns, ne, vs, ve int }

func isWS(c byte) bool { return c == ' ' || c == '\t' }

// refHeaders: res 1 well formed (count >= 1 headers, end = offset after the
// blank line), 0 malformed, -1 incomplete / more than refMaxHdrs headers.
func refHeaders(buf []byte) (res int, hs [refMaxHdrs]refHdr, count int, end int) {
	n := len(buf)
	p := 0
	for {
		if p >= n {
			return -1, hs, count, 0
		}
		if buf[p] == '\r' {
			if p+1 >= n {
				return -1, hs, count, 0
			}
			end = p + 1
			if buf[p+1] == '\n' {
				end = p + 2
			}
			break
		}
		if buf[p] == '\n' {
			end = p + 1
			break
		}
		if count >= refMaxHdrs {
			return -1, hs, count, 0
		}
		ns := p
		for p < n && !isWS(buf[p]) && buf[p] != '\r' && buf[p] != '\n' && buf[p] != ':' {
			p++
		}
		if p >= n {
			return -1, hs, count, 0
		}
		if p == ns {
			return 0, hs, count, 0
		}
		ne := p
		for p < n && isWS(buf[p]) {
			p++
		}
		if p >= n {
			return -1, hs, count, 0
		}
		if buf[p] != ':' {
			return 0, hs, count, 0
		}
		p++
		vs, ve := 0, 0
		for {
			if p >= n {
				return -1, hs, count, 0
			}
			c := buf[p]
			if isWS(c) {
				p++
				continue
			}
			if c == '\r' || c == '\n' {
				l := 1
				if c == '\r' {
					if p+1 >= n {
						return -1, hs, count, 0
					}
					if buf[p+1] == '\n' {
						l = 2
					}
				}
				if p+l >= n {
					return -1, hs, count, 0
				}
				p += l
				if isWS(buf[p]) {
					continue // folded line
				}
				break
			}
			if ve == 0 {
				vs = p
			}
			ve = p + 1
			p++
		}
		hs[count] = refHdr{ns, ne, vs, ve}
		count++
	}
	if count == 0 {
		return 0, hs, count, 0
	}
	return 1, hs, count, end
}

func H_C07(t, w, hcap int) {
	var hl HdrLst
	var hbuf [refMaxHdrs + 1]Hdr
	hl.Hdrs = hbuf[:hcap]
	text := vTpl(t, w)
	c07(text, text, &hl, hcap, 0, 0)
}

// H_C07_at: the block starts at offset k of the buffer and arrives in two
// pieces (every cut, chosen symbolically; choice 0 = in one piece).
func H_C07_at(t, w, hcap, k int) {
	var hl HdrLst
	var hbuf [refMaxHdrs + 1]Hdr
	hl.Hdrs = hbuf[:hcap]
	text := vTpl(t, w)
	buf := vPad(k, []byte{'\r', '\n'}, text)
	o := k
	if c := vChoice(len(text)); c > 0 {
		var e ErrorHdr
		o, e = ParseHeaders(buf[:k+c], k, &hl, nil)
		if e != ErrHdrMoreBytes {
			vReach("early")
			return
		}
	}
	c07(text, buf, &hl, hcap, k, o)
}

// c07: final call (from offset o of buf, the block text starting at k) and
// comparison with the reference tokeniser.
func c07(text, buf []byte, phl *HdrLst, hcap, k, o int) {
	o, e := ParseHeaders(buf, o, phl, nil)
	hl := *phl
	res, hs, count, end := refHeaders(text)
	for i := 0; i < count; i++ {
		hs[i].ns, hs[i].ne = hs[i].ns+k, hs[i].ne+k
		if hs[i].ve != 0 {
			hs[i].vs, hs[i].ve = hs[i].vs+k, hs[i].ve+k
		}
	}
	end += k
	vObs("o", o)
	vObs("e", int(e))
	vObs("res", res)
	if res != 1 {
		vReach("not-wellformed")
		return
	}
	vAssert("accepted", e == 0 && o == end)
	if e != 0 {
		return
	}
	vAssert("count-includes-dropped", hl.N == count)
	var wantFlags HdrFlags
	var tys [refMaxHdrs]int
	for i := 0; i < count; i++ {
		h := hs[i]
		ty := refHdrTypeB(buf[h.ns:h.ne])
		tys[i] = ty
		wantFlags |= 1 << uint(ty)
		if i < hcap {
			g := &hl.Hdrs[i]
			vAssert("name-span", pfIs(g.Name, h.ns, h.ne))
			vAssert("value-span", pfIs(g.Val, h.vs, h.ve) || (k > 0 && h.ve == 0 && g.Val.Len == 0))
			vAssert("type", int(g.Type) == ty)
		}
	}
	// first-of-type shortcut for every known type, including headers that
	// did not fit the caller's array
	for t := HdrNone + 1; t < HdrOther; t++ {
		found := false
		ns, ne, vs, ve := 0, 0, 0, 0
		for i := count - 1; i >= 0; i-- {
			if tys[i] == int(t) {
				found = true
				ns, ne, vs, ve = hs[i].ns, hs[i].ne, hs[i].vs, hs[i].ve
			}
		}
		f := hl.GetHdr(t)
		if found {
			vAssert("first-of-type-present", f.Type == t)
			vAssert("first-of-type-spans", pfIs(f.Name, ns, ne) && (pfIs(f.Val, vs, ve) || (k > 0 && ve == 0 && f.Val.Len == 0)))
		} else {
			vAssert("first-of-type-absent", f.Type == HdrNone)
		}
	}
	vAssert("type-flags", hl.PFlags == wantFlags)
	vReach("wellformed")
}
