//go:build verif

package sipsp

// C07: header block tokenisation is faithful to the text.

const refMaxHdrs = 6

type refHdr struct{ ns, ne, vs, ve int }

func isWS(c byte) bool { return c == ' ' || c == '\t' }

// refHeaders: res 1 well formed (count >= 1 headers, end = offset after the
// blank line), 0 malformed, -1 incomplete / more than refMaxHdrs headers.
func refHeaders(buf []byte) (res int, hs [refMaxHdrs]refHdr, count int, end int) {
	n := len(buf)
	p := 0
	for {
		if p >= n {
			return -1, hs, count, 0
		}
		if buf[p] == '\r' {
			if p+1 >= n {
				return -1, hs, count, 0
			}
			end = p + 1
			if buf[p+1] == '\n' {
				end = p + 2
			}
			break
		}
		if buf[p] == '\n' {
			end = p + 1
			break
		}
		if count >= refMaxHdrs {
			return -1, hs, count, 0
		}
		ns := p
		for p < n && !isWS(buf[p]) && buf[p] != '\r' && buf[p] != '\n' && buf[p] != ':' {
			p++
		}
		if p >= n {
			return -1, hs, count, 0
		}
		if p == ns {
			return 0, hs, count, 0
		}
		ne := p
		for p < n && isWS(buf[p]) {
			p++
		}
		if p >= n {
			return -1, hs, count, 0
		}
		if buf[p] != ':' {
			return 0, hs, count, 0
		}
		p++
		vs, ve := 0, 0
		for {
			if p >= n {
				return -1, hs, count, 0
			}
			c := buf[p]
			if isWS(c) {
				p++
				continue
			}
			if c == '\r' || c == '\n' {
				l := 1
				if c == '\r' {
					if p+1 >= n {
						return -1, hs, count, 0
					}
					if buf[p+1] == '\n' {
						l = 2
					}
				}
				if p+l >= n {
					return -1, hs, count, 0
				}
				p += l
				if isWS(buf[p]) {
					continue // folded line
				}
				break
			}
			if ve == 0 {
				vs = p
			}
			ve = p + 1
			p++
		}
		hs[count] = refHdr{ns, ne, vs, ve}
		count++
	}
	if count == 0 {
		return 0, hs, count, 0
	}
	return 1, hs, count, end
}

func H_C07(t, w, hcap int) {
	buf := vTpl(t, w)
	var hl HdrLst
	var hbuf [refMaxHdrs + 1]Hdr
	hl.Hdrs = hbuf[:hcap]
	o, e := ParseHeaders(buf, 0, &hl, nil)
	res, hs, count, end := refHeaders(buf)
	vObs("o", o)
	vObs("e", int(e))
	vObs("res", res)
	if res != 1 {
		vReach("not-wellformed")
		return
	}
	vAssert("accepted", e == 0 && o == end)
	if e != 0 {
		return
	}
	vAssert("count-includes-dropped", hl.N == count)
	var wantFlags HdrFlags
	var tys [refMaxHdrs]int
	for i := 0; i < count; i++ {
		h := hs[i]
		ty := refHdrTypeB(buf[h.ns:h.ne])
		tys[i] = ty
		wantFlags |= 1 << uint(ty)
		if i < hcap {
			g := &hl.Hdrs[i]
			vAssert("name-span", pfIs(g.Name, h.ns, h.ne))
			vAssert("value-span", pfIs(g.Val, h.vs, h.ve))
			vAssert("type", int(g.Type) == ty)
		}
	}
	// first-of-type shortcut for every known type, including headers that
	// did not fit the caller's array
	for t := HdrNone + 1; t < HdrOther; t++ {
		found := false
		ns, ne, vs, ve := 0, 0, 0, 0
		for i := count - 1; i >= 0; i-- {
			if tys[i] == int(t) {
				found = true
				ns, ne, vs, ve = hs[i].ns, hs[i].ne, hs[i].vs, hs[i].ve
			}
		}
		f := hl.GetHdr(t)
		if found {
			vAssert("first-of-type-present", f.Type == t)
			vAssert("first-of-type-spans", pfIs(f.Name, ns, ne) && pfIs(f.Val, vs, ve))
		} else {
			vAssert("first-of-type-absent", f.Type == HdrNone)
		}
	}
	vAssert("type-flags", hl.PFlags == wantFlags)
	vReach("wellformed")
}
