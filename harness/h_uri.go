//go:build verif

package sipsp

// C14 (lossless ordered decomposition) and C18 (relocation, views).

// vURIBuf builds scheme prefix (0 sip: 1 sips: 2 tel:) in any letter case
// followed by n fully symbolic bytes.
func vURIBuf(scheme, n int) []byte {
	pre := "sip:"
	if scheme == 1 {
		pre = "sips:"
	} else if scheme == 2 {
		pre = "tel:"
	}
	buf := vBytes(len(pre) + n)
	vAssume(refEqFold(buf[:len(pre)], pre))
	if scheme == 2 {
		// a tel: number has no user-info part: texts containing '@' are outside the claim
		for i := len(pre); i < len(buf); i++ {
			vAssume(buf[i] != '@')
		}
	}
	return buf
}

func pfEnd(f PField) int { return int(f.Offs) + int(f.Len) }

// uriWalk checks that the components, joined with their delimiters,
// reproduce the input exactly (position-wise).
func uriWalk(buf []byte, u *PsipURI) {
	n := len(buf)
	vAssert("scheme-at-0", u.Scheme.Offs == 0 && u.Scheme.Len > 0)
	pos := int(u.Scheme.Len)
	vAssert("scheme-ends-with-colon", buf[pos-1] == ':')
	if u.URIType == TELuri {
		vAssert("tel-host-empty", u.Host.Len == 0 && u.Pass.Len == 0)
		vAssert("tel-user-follows-scheme", int(u.User.Offs) == pos && u.User.Len > 0)
		pos = pfEnd(u.User)
	} else {
		if u.User.Len > 0 {
			vAssert("user-follows-scheme", int(u.User.Offs) == pos)
			// ':' and '@' delimit user, password and host: a user containing
			// one of them has swallowed (part of) another component
			for i := int(u.User.Offs); i < pfEnd(u.User) && i < n; i++ {
				vAssert("no-delimiter-inside-user", buf[i] != ':' && buf[i] != '@')
			}
			for i := int(u.Pass.Offs); i < pfEnd(u.Pass) && i < n; i++ {
				vAssert("no-at-inside-password", buf[i] != '@')
			}
			pos = pfEnd(u.User)
			if u.Pass.Len > 0 {
				vAssert("colon-before-pass", buf[pos] == ':')
				vAssert("pass-follows-colon", int(u.Pass.Offs) == pos+1)
				pos = pfEnd(u.Pass)
			} else if pos < n && buf[pos] == ':' {
				pos++ // empty password
			}
			vAssert("at-after-userinfo", pos < n)
			if pos < n {
				vAssert("at-after-userinfo-char", buf[pos] == '@')
			}
			pos++
		} else {
			vAssert("no-pass-without-user", u.Pass.Len == 0)
		}
		vAssert("host-follows", int(u.Host.Offs) == pos && u.Host.Len > 0)
		for i := int(u.Host.Offs); i < pfEnd(u.Host) && i < n; i++ {
			vAssert("no-at-inside-host", buf[i] != '@')
		}
		pos = pfEnd(u.Host)
	}
	if u.Port.Len > 0 {
		vAssert("colon-before-port", buf[pos] == ':')
		vAssert("port-follows-colon", int(u.Port.Offs) == pos+1)
		pos = pfEnd(u.Port)
	} else if pos < n && buf[pos] == ':' {
		pos++
	}
	if u.Params.Len > 0 {
		vAssert("semi-before-params", buf[pos] == ';')
		vAssert("params-follow-semi", int(u.Params.Offs) == pos+1)
		pos = pfEnd(u.Params)
	} else if pos < n && buf[pos] == ';' {
		pos++
	}
	if u.Headers.Len > 0 {
		vAssert("qm-before-headers", buf[pos] == '?')
		vAssert("headers-follow-qm", int(u.Headers.Offs) == pos+1)
		pos = pfEnd(u.Headers)
	} else if pos < n && buf[pos] == '?' {
		pos++
	}
	vAssert("nothing-dropped", pos == n)
}

func H_C14(scheme, n int) {
	buf := vURIBuf(scheme, n)
	var u PsipURI
	e, o := ParseURI(buf, &u)
	vObs("e", int(e))
	vObs("o", o)
	if e != NoURIErr {
		vAssert("error-position-inside", o >= 0 && o <= len(buf))
		vReach("rejected")
		return
	}
	vAssert("consumed-all", o == len(buf))
	want := SIPuri
	if scheme == 1 {
		want = SIPSuri
	} else if scheme == 2 {
		want = TELuri
	}
	vAssert("scheme-type", u.URIType == want)
	uriWalk(buf, &u)
	// the numeric port is the decimal value of the port text
	if u.Port.Len > 0 {
		// a port is a digit string (C10: the number is the decimal value of
		// the digit string it points to)
		vAssert("port-is-a-digit-string", vAllDigits(u.Port.Get(buf)))
	}
	if u.Port.Len > 0 && u.Port.Len <= 6 {
		pt := u.Port.Get(buf)
		ref, sat := refDec(pt, 65535)
		vAssert("port-number-is-port-text", vOr(!vAllDigits(pt), vAnd(!sat, uint64(u.PortNo) == ref)))
	} else if u.Port.Len == 0 {
		vAssert("no-port-no-number", u.PortNo == 0)
	}
	// bracketed host keeps its brackets
	if u.Host.Len > 0 {
		h := u.Host.Get(buf)
		vAssert("ipv6-brackets-kept", vOr(h[0] != '[', h[len(h)-1] == ']'))
	}
	vReach("accepted")
}

// H_C18: relocation of an accepted sip: URI onto an arbitrary 16-bit
// (offset, length) target span; views.
func H_C18(scheme, n int) {
	buf := vURIBuf(scheme, n)
	var u PsipURI
	e, _ := ParseURI(buf, &u)
	if e != NoURIErr {
		vReach("rejected")
		return
	}
	u0 := u
	long := u0.Long()
	short := u0.Short()
	vAssert("long-starts-at-scheme", long.Offs == u0.Scheme.Offs)
	last := pfEnd(u0.Scheme)
	if u0.User.Len > 0 {
		last = pfEnd(u0.User)
	}
	if u0.Pass.Len > 0 {
		last = pfEnd(u0.Pass)
	}
	if u0.Host.Len > 0 {
		last = pfEnd(u0.Host)
	}
	if u0.Port.Len > 0 {
		last = pfEnd(u0.Port)
	}
	slast := last
	if u0.Params.Len > 0 {
		last = pfEnd(u0.Params)
	}
	if u0.Headers.Len > 0 {
		last = pfEnd(u0.Headers)
	}
	vAssert("long-ends-at-last-component", pfEnd(long) == last)
	vAssert("short-is-prefix-of-long", short.Offs == long.Offs && short.Len <= long.Len)
	vAssert("short-ends-at-host-port", pfEnd(short) == slast)
	flat := u0.Flat(buf)
	vAssert("flat-is-long", len(flat) == int(long.Len))
	t := u0
	t.Truncate()
	vAssert("truncate-only-params-headers", t.Params.Len == 0 && t.Headers.Len == 0 && t.Scheme == u0.Scheme && t.User == u0.User &&
		t.Pass == u0.Pass && t.Host == u0.Host && t.Port == u0.Port && t.PortNo == u0.PortNo && t.URIType == u0.URIType)
	// relocation target: every (offset, length) pair inside the 16-bit space
	no, nl := vU16(), vU16()
	vAssume(int(no)+int(nl) <= 65535)
	newpos := PField{Offs: OffsT(no), Len: OffsT(nl)}
	ok := u.AdjustOffs(newpos)
	relocCheck(&u0, &u, newpos, ok, long.Len)
	if ok {
		vReach("moved")
	} else {
		vReach("refused")
	}
	vReach("end")
}

// relocCheck: the relocation contract of AdjustOffs (u0 before, u after).
func relocCheck(pu0, pu *PsipURI, newpos PField, ok bool, need0 OffsT) {
	u0, u := *pu0, *pu
	need := need0
	if ok {
		vAssert("accepted-only-if-it-fits", newpos.Len >= need)
		d := newpos.Offs - u0.Scheme.Offs
		vAssert("scheme-moved", u.Scheme.Offs == newpos.Offs && u.Scheme.Len == u0.Scheme.Len)
		if u0.User.Len > 0 {
			vAssert("user-moved", u.User.Offs == u0.User.Offs+d && u.User.Len == u0.User.Len)
		}
		if u0.Pass.Len > 0 {
			vAssert("pass-moved", u.Pass.Offs == u0.Pass.Offs+d && u.Pass.Len == u0.Pass.Len)
		}
		if u0.Host.Len > 0 {
			vAssert("host-moved", u.Host.Offs == u0.Host.Offs+d && u.Host.Len == u0.Host.Len)
		}
		if u0.Port.Len > 0 {
			vAssert("port-moved", u.Port.Offs == u0.Port.Offs+d && u.Port.Len == u0.Port.Len)
		}
		if u0.Params.Len > 0 {
			vAssert("params-moved", u.Params.Offs == u0.Params.Offs+d && u.Params.Len == u0.Params.Len)
		}
		if u0.Headers.Len > 0 {
			vAssert("headers-moved", u.Headers.Offs == u0.Headers.Offs+d && u.Headers.Len == u0.Headers.Len)
		}
		vAssert("numbers-kept", u.PortNo == u0.PortNo && u.URIType == u0.URIType)
	} else {
		vAssert("refused-only-if-too-short", newpos.Len < need)
		vAssert("refused-unchanged", u == u0)
	}
}

// H_C11_reloc: a parsed URI moved to offset k (symbolic, any 16-bit value
// that keeps the text inside the addressing limit) of a buffer that holds the
// same text there: every component shifted by exactly k, numbers unchanged.
func H_C11_reloc(scheme, n int) {
	buf := vURIBuf(scheme, n)
	var u PsipURI
	e, _ := ParseURI(buf, &u)
	if e != NoURIErr {
		vReach("rejected")
		return
	}
	u0 := u
	k := vU16()
	vAssume(int(k)+len(buf) <= 65535)
	newpos := PField{Offs: OffsT(k), Len: OffsT(len(buf))}
	ok := u.AdjustOffs(newpos)
	vAssert("relocation-onto-a-span-of-the-text-length-accepted", ok)
	relocCheck(&u0, &u, newpos, ok, u0.Long().Len)
	vReach("end")
}
