//go:build verif

package sipsp

// C13: caller-chosen capacities only truncate what is stored.

func H_C13_msg(t, w, hcap, ccap, chunk int) {
	buf := vTpl(t, w)
	var small, ample PSIPMsg
	var hb [3]Hdr
	var cb [3]PFromBody
	var ha [12]Hdr
	var ca [12]PFromBody
	var hs []Hdr
	var cs []PFromBody
	if hcap >= 0 {
		hs = hb[:hcap]
	}
	if ccap >= 0 {
		cs = cb[:ccap]
	}
	small.Init(nil, hs, cs)
	ample.Init(nil, ha[:], ca[:])
	flags := vU8() & 3
	if chunk != 0 {
		// without Content-Length the body is "the rest of the buffer", which
		// legitimately depends on the chunking: skip the body when chunked
		flags |= SIPMsgSkipBodyF
	}
	oa, ea := ParseSIPMsg(buf, 0, &ample, flags)
	var os int
	var es ErrorHdr
	if chunk != 0 && len(buf) > 1 {
		cut := 1 + vChoice(len(buf)-1)
		os, es = ParseSIPMsg(buf[:cut], 0, &small, flags)
		if es == ErrHdrMoreBytes {
			os, es = ParseSIPMsg(buf, os, &small, flags)
		}
	} else {
		os, es = ParseSIPMsg(buf, 0, &small, flags)
	}
	vObs("oa", oa)
	vObs("ea", int(ea))
	vAssert("same-verdict-and-offset", oa == os && ea == es)
	if ea != 0 {
		vReach("not-accepted")
		return
	}
	a, s := &ample, &small
	vAssert("same-counts-and-flags", a.HL.N == s.HL.N && a.HL.PFlags == s.HL.PFlags && a.PV.Contacts.N == s.PV.Contacts.N && a.PV.Contacts.HNo == s.PV.Contacts.HNo &&
		a.PV.PAIs.N == s.PV.PAIs.N && a.PV.PAIs.HNo == s.PV.PAIs.HNo)
	for ty := HdrNone + 1; ty < HdrOther; ty++ {
		vAssert("same-first-of-type", hdrPub(a.HL.GetHdr(ty), s.HL.GetHdr(ty)))
	}
	vAssert("same-first-line-and-body", vAnd(a.FL == s.FL, a.Body == s.Body))
	vAssert("same-from-to", vAnd(fromObsEq(&a.PV.From, &s.PV.From), fromObsEq(&a.PV.To, &s.PV.To)))
	vAssert("same-callid-cseq", vAnd(a.PV.Callid.CallID == s.PV.Callid.CallID, vAnd(a.PV.CSeq.CSeqNo == s.PV.CSeq.CSeqNo, a.PV.CSeq.V == s.PV.CSeq.V && a.PV.CSeq.MethodNo == s.PV.CSeq.MethodNo)))
	vAssert("same-clen-expires", vAnd(vAnd(a.PV.CLen.UIVal == s.PV.CLen.UIVal, a.PV.CLen.Parsed() == s.PV.CLen.Parsed()), vAnd(a.PV.Expires.UIVal == s.PV.Expires.UIVal, a.PV.Expires.Parsed() == s.PV.Expires.Parsed())))
	vAssert("same-expires-summary", vAnd(a.PV.Contacts.MaxExpires == s.PV.Contacts.MaxExpires, a.PV.Contacts.MinExpires == s.PV.Contacts.MinExpires))
	ma, oka := a.PV.MaxExpires()
	ms, oks := s.PV.MaxExpires()
	vAssert("same-max-expires", vAnd(ma == ms, oka == oks))
	// stored elements are a prefix
	ns := s.HL.N
	if ns > len(s.HL.Hdrs) {
		ns = len(s.HL.Hdrs)
	}
	for i := 0; i < ns; i++ {
		vAssert("stored-headers-are-a-prefix", hdrPub(&a.HL.Hdrs[i], &s.HL.Hdrs[i]))
	}
	for i := 0; i < s.PV.Contacts.VNo(); i++ {
		vAssert("stored-contacts-are-a-prefix", fromObsEq(&a.PV.Contacts.Vals[i], &s.PV.Contacts.Vals[i]))
	}
	vAssert("more-indicator", s.PV.Contacts.More() == (s.PV.Contacts.N > len(s.PV.Contacts.Vals)))
	if a.PV.Contacts.N > 0 {
		f, l := s.PV.Contacts.GetContact(0), s.PV.Contacts.GetContact(s.PV.Contacts.N-1)
		vAssert("first-and-last-contact-retrievable", f != nil && l != nil)
		if f != nil && l != nil {
			vAssert("first-contact-same", fromObsEq(f, a.PV.Contacts.GetContact(0)))
			vAssert("last-contact-same", fromObsEq(l, a.PV.Contacts.GetContact(a.PV.Contacts.N-1)))
		}
	}
	vReach("accepted")
}

// H_C13_params_chunk: as H_C13_params but the small-capacity list is parsed
// with one symbolic cut (no end-of-input flag: the list ends at '?').
func H_C13_params_chunk(t, w, pcap int) {
	buf := vTpl(t, w)
	var s, a URIParamsLst
	var sb [3]URIParam
	var ab [8]URIParam
	s.Init(sb[:pcap])
	a.Init(ab[:])
	oa, _, ea := ParseAllURIParams(buf, 0, &a, POptTokURIParamF)
	cut := 1 + vChoice(len(buf)-1)
	os, _, es := ParseAllURIParams(buf[:cut], 0, &s, POptTokURIParamF)
	if es == ErrHdrMoreBytes {
		os, _, es = ParseAllURIParams(buf, os, &s, POptTokURIParamF)
	} else if cut < len(buf) {
		vReach("early")
		return
	}
	vAssert("same-verdict", oa == os && ea == es)
	if ea == ErrHdrOk || ea == ErrHdrEOH {
		vAssert("same-count-and-types", a.N == s.N && a.Types == s.Types)
		for i := 0; i < s.PNo(); i++ {
			vAssert("stored-are-a-prefix", a.Params[i].T == s.Params[i].T && a.Params[i].Param.Name == s.Params[i].Param.Name && a.Params[i].Param.Val == s.Params[i].Param.Val)
		}
		vReach("list")
	}
	vReach("end")
}

func H_C13_hdrs_chunk(t, w, hcap int) {
	buf := vTpl(t, w)
	var s, a URIHdrsLst
	var sb [3]URIHdr
	var ab [8]URIHdr
	s.Init(sb[:hcap])
	a.Init(ab[:])
	oa, _, ea := ParseAllURIHdrs(buf, 0, &a, POptTokURIHdrF)
	cut := 1 + vChoice(len(buf)-1)
	os, _, es := ParseAllURIHdrs(buf[:cut], 0, &s, POptTokURIHdrF)
	if es == ErrHdrMoreBytes {
		os, _, es = ParseAllURIHdrs(buf, os, &s, POptTokURIHdrF)
	} else if cut < len(buf) {
		vReach("early")
		return
	}
	vAssert("same-verdict", oa == os && ea == es)
	if ea == ErrHdrOk || ea == ErrHdrEOH {
		vAssert("same-count", a.N == s.N)
		for i := 0; i < s.HNo(); i++ {
			vAssert("stored-are-a-prefix", a.Hdrs[i].Name == s.Hdrs[i].Name && a.Hdrs[i].Val == s.Hdrs[i].Val)
		}
		vReach("list")
	}
	vReach("end")
}

func H_C13_params(n, pcap int) {
	buf := vBytes(n)
	var s, a URIParamsLst
	var sb [3]URIParam
	var ab [8]URIParam
	s.Init(sb[:pcap])
	a.Init(ab[:])
	oa, ka, ea := ParseAllURIParams(buf, 0, &a, POptTokURIParamF|POptInputEndF)
	os, ks, es := ParseAllURIParams(buf, 0, &s, POptTokURIParamF|POptInputEndF)
	vAssert("same-verdict", oa == os && ka == ks && ea == es)
	if ea == ErrHdrOk || ea == ErrHdrEOH {
		vAssert("same-count-and-types", a.N == s.N && a.Types == s.Types)
		for i := 0; i < s.PNo(); i++ {
			vAssert("stored-are-a-prefix", a.Params[i].T == s.Params[i].T && a.Params[i].Param.Name == s.Params[i].Param.Name && a.Params[i].Param.Val == s.Params[i].Param.Val)
		}
		vAssert("more-indicator", s.More() == (s.N > pcap))
		vReach("list")
	}
	vReach("end")
}

func H_C13_hdrs(n, hcap int) {
	buf := vBytes(n)
	var s, a URIHdrsLst
	var sb [3]URIHdr
	var ab [8]URIHdr
	s.Init(sb[:hcap])
	a.Init(ab[:])
	oa, ka, ea := ParseAllURIHdrs(buf, 0, &a, POptTokURIHdrF|POptInputEndF)
	os, ks, es := ParseAllURIHdrs(buf, 0, &s, POptTokURIHdrF|POptInputEndF)
	vAssert("same-verdict", oa == os && ka == ks && ea == es)
	if ea == ErrHdrOk || ea == ErrHdrEOH {
		vAssert("same-count", a.N == s.N)
		for i := 0; i < s.HNo(); i++ {
			vAssert("stored-are-a-prefix", a.Hdrs[i].Name == s.Hdrs[i].Name && a.Hdrs[i].Val == s.Hdrs[i].Val)
		}
		vAssert("more-indicator", s.More() == (s.N > hcap))
		vReach("list")
	}
	vReach("end")
}
