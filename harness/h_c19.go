//go:build verif

package sipsp

// C19: the message signature depends only on what it fingerprints.

func noEOL(w []byte) {
	for i := range w {
		vAssume(w[i] != '\r' && w[i] != '\n')
	}
}

// msgOf parses a complete request one-shot (hcap: header array capacity, <0 default).
func msgOf(buf []byte, m *PSIPMsg, hs []Hdr) ErrorHdr {
	m.Init(nil, hs, nil)
	_, e := ParseSIPMsg(buf, 0, m, SIPMsgSkipBodyF)
	return e
}

// sigPost: documented shape of a signature.
func sigPost(s *MsgSig) {
	vAssert("at-most-eight-entries", s.HdrSigLen >= 0 && s.HdrSigLen <= 8)
	for i := 0; i < s.HdrSigLen && i < 8; i++ {
		vAssert("entry-is-a-known-id", s.HdrSig[i]&^HdrSigIdCMask < 8)
	}
	for i := 0; i < s.HdrSigLen; i++ {
		for j := i + 1; j < s.HdrSigLen; j++ {
			vAssert("each-header-once", s.HdrSig[i]&^HdrSigIdCMask != s.HdrSig[j]&^HdrSigIdCMask)
		}
	}
}

var c19Heads = [...]string{
	0: "INVITE sip:a SIP/2.0\r\n",
	1: "REGISTER sip:a SIP/2.0\r\n",
	2: "SIP/2.0 200 OK\r\n",
}

// H_C19_insert: inserting another header (symbolic name/value) at any
// position, repeating a fingerprinted header later, or changing the value of
// a non-fingerprinted header leaves the signature unchanged.
func H_C19_insert(head, pos, w int) { H_C19_insert_rot(head, pos, w, 0) }

// H_C19_insert_rot: as H_C19_insert with the skeleton headers rotated by rot
// (rot = 1 puts the Via header last).
func H_C19_insert_rot(head, pos, w, rot int) {
	lines0 := [...]string{"Via: SIP/2.0/UDP h;branch=z9hG4bKa-1.b_2+c\r\n", "f: <sip:a>;tag=x1\r\n", "To: <sip:b>\r\n", "Call-ID: ab@1.2.3.4\r\n", "CSeq: 1 INVITE\r\n", "m: <sip:c>\r\n"}
	var lines [len(lines0)]string
	for i := range lines0 {
		lines[i] = lines0[(i+rot)%len(lines0)]
	}
	xv := vBytes(w)
	noEOL(xv)
	a := []byte(c19Heads[head])
	b := []byte(c19Heads[head])
	for i := 0; i <= len(lines); i++ {
		if i == pos {
			b = append(b, "X-y:"...)
			b = append(b, xv...)
			b = append(b, '\r', '\n')
		}
		if i < len(lines) {
			a = append(a, lines[i]...)
			b = append(b, lines[i]...)
		}
	}
	// b also repeats a fingerprinted header at the end
	b = append(b, "From: <sip:zz>;tag=other\r\n"...)
	a = append(a, '\r', '\n')
	b = append(b, '\r', '\n')
	var ma, mb PSIPMsg
	var ha, hb [12]Hdr
	ea := msgOf(a, &ma, ha[:])
	eb := msgOf(b, &mb, hb[:])
	vAssert("both-parse", ea == 0 && eb == 0)
	sa, ra := GetMsgSig(&ma)
	sb, rb := GetMsgSig(&mb)
	vObs("ra", int(ra))
	vObs("rb", int(rb))
	if head == 2 {
		vAssert("reply-has-no-signature", ra == ErrHdrEmpty && rb == ErrHdrEmpty)
		vReach("end")
		return
	}
	vAssert("signature-produced", ra == ErrHdrOk && rb == ErrHdrOk)
	vAssert("unchanged-by-other-headers", sa == sb)
	sigPost(&sa)
	hasContact := false
	for i := 0; i < sa.HdrSigLen; i++ {
		if sa.HdrSig[i]&^HdrSigIdCMask == 1 {
			hasContact = true
		}
	}
	vAssert("contact-only-for-invite", hasContact == (head == 0))
	str := sa.String()
	vAssert("text-rendering-length", len(str) == 1+sa.HdrSigLen+1+6+1+4+1+4)
	vReach("end")
}

// H_C19_cap: header array too small => same signature or explicit truncation.
func H_C19_cap(hcap, w int) {
	xn := vBytes(w)
	for i := range xn {
		vAssume(isAlnum(xn[i]) || xn[i] == '-')
	}
	b := []byte(c19Heads[0])
	b = append(b, "Via: SIP/2.0/UDP h;branch=z9hG4bKa-1.b_2+c\r\n"...)
	b = append(b, xn...) // symbolic header name: may or may not be a fingerprinted one
	b = append(b, ": <sip:a>;tag=x1\r\nTo: <sip:b>\r\ni: ab\r\nCSeq: 1 INVITE\r\n\r\n"...)
	var ma, mb PSIPMsg
	var ha [12]Hdr
	var hb [12]Hdr
	ea := msgOf(b, &ma, ha[:])
	eb := msgOf(b, &mb, hb[:hcap])
	if ea != 0 {
		vReach("rejected")
		return
	}
	vAssert("capacity-does-not-change-verdict", eb == 0)
	sa, ra := GetMsgSig(&ma)
	sb, rb := GetMsgSig(&mb)
	vAssert("full-array-ok", ra == ErrHdrOk)
	vAssert("small-array-same-or-truncated", (rb == ErrHdrOk && sa == sb) || rb == ErrHdrTrunc)
	if hcap >= ma.HL.N {
		vAssert("all-fit-same-signature", rb == ErrHdrOk && sa == sb)
	}
	sigPost(&sb)
	vReach("end")
}

// H_C19_chunk: the signature does not depend on how the message was chunked.
func H_C19_chunk(w int) {
	xv := vBytes(w)
	noEOL(xv)
	b := []byte(c19Heads[0])
	b = append(b, "v: SIP/2.0/UDP h;branch=z9hG4bKa-1.b_2+c\r\nFrom: <sip:a>;tag=x1\r\nX:"...)
	b = append(b, xv...)
	b = append(b, "\r\nt: <sip:b>\r\ni: ab\r\nCSeq: 1 INVITE\r\n\r\n"...)
	var one, inc PSIPMsg
	one.Init(nil, nil, nil)
	inc.Init(nil, nil, nil)
	_, e1 := ParseSIPMsg(b, 0, &one, SIPMsgSkipBodyF)
	cut := 1 + vChoice(len(b)-1)
	o, e := ParseSIPMsg(b[:cut], 0, &inc, SIPMsgSkipBodyF)
	if e == ErrHdrMoreBytes {
		_, e = ParseSIPMsg(b, o, &inc, SIPMsgSkipBodyF)
	}
	vAssert("both-parse", e1 == 0 && e == 0)
	s1, r1 := GetMsgSig(&one)
	s2, r2 := GetMsgSig(&inc)
	vAssert("chunking-irrelevant", r1 == r2 && s1 == s2)
	vReach("end")
}

// H_C19_strsig: character-class signatures on arbitrary strings: total and
// independent of bytes outside the string.
func H_C19_strsig(n int) {
	s := vBytes(n)
	sig, l := GetCallIDSig(s)
	vAssert("len-class-bounded", int(l) <= (n+3)/4)
	_ = sig
	vs, vl := GetViaBrSig(s)
	vAssert("via-len-bounded", vl >= 0 && vl <= n)
	_ = vs
	vReach("end")
}

// H_C19_string: the text rendering is well formed for every signature of the
// documented shape (other fields arbitrary).
func H_C19_string(k int) {
	var s MsgSig
	s.Method = SIPMethod(vU8())
	vAssume(s.Method <= MOther)
	s.CidSLen = vU8()
	s.CidSig = StrSigId(vU16())
	s.FromSig = StrSigId(vU16())
	s.ViaBSig = StrSigId(vU16())
	s.HdrSigLen = k
	for i := 0; i < k; i++ {
		x := vU8()
		vAssume(x < 16)
		s.HdrSig[i] = HdrSigId(x)
	}
	str := s.String()
	if s.Method == MUndef && k == 0 {
		vAssert("empty-for-no-signature", len(str) == 0)
		vReach("end")
		return
	}
	vAssert("text-length", len(str) == 1+k+1+6+1+4+1+4)
	isHex := func(c byte) bool { return (c >= '0' && c <= '9') || (c >= 'a' && c <= 'f') }
	for i := 0; i < len(str); i++ {
		c := str[i]
		switch i {
		case 1 + k:
			vAssert("marker-I", c == 'I')
		case 1 + k + 7:
			vAssert("marker-F", c == 'F')
		case 1 + k + 12:
			vAssert("marker-V", c == 'V')
		default:
			vAssert("hex-digit", isHex(c))
		}
	}
	vReach("end")
}

// H_C19_state: the message state is constructed directly (the representation
// invariant of ParseHeaders - PFlags = set of header types seen, checked in
// C07 - is established by construction): h stored headers of symbolic types
// (every type 1..14) and symbolic long/compact form. The signature must not
// change when a non-fingerprinted header is inserted at a symbolic position,
// when a fingerprinted header is repeated at the end, and a shorter header
// array gives the same signature or ErrHdrTrunc.
func H_C19_state(h int, method int) {
	buf := []byte("abc@1.2.3.4 tagx z9hG4bKa-1.b_2")
	var m, m2, m3 PSIPMsg
	var hs, hs2, hs3 [8]Hdr
	ins := vChoice(h + 1)
	n2 := 0
	for i := 0; i < h; i++ {
		t := HdrT(1 + vChoice(14))
		nl := OffsT(1 + vChoice(2))
		hd := Hdr{Type: t, Name: PField{Offs: 0, Len: nl}, Val: PField{Offs: 17, Len: 14}}
		hs[i] = hd
		m.HL.PFlags.Set(t)
		if i == ins {
			hs2[n2] = Hdr{Type: HdrOther, Name: PField{Offs: 0, Len: 3}, Val: PField{Offs: 0, Len: 3}}
			n2++
		}
		hs2[n2] = hd
		n2++
	}
	if ins == h {
		hs2[n2] = Hdr{Type: HdrOther, Name: PField{Offs: 0, Len: 3}, Val: PField{Offs: 0, Len: 3}}
		n2++
	}
	// a repeat of the first header type at the very end
	hs2[n2] = Hdr{Type: hs[0].Type, Name: PField{Offs: 0, Len: 2}, Val: PField{Offs: 12, Len: 4}}
	n2++
	for _, x := range []*PSIPMsg{&m, &m2, &m3} {
		x.Buf = buf
		x.FL.MethodNo = SIPMethod(method)
		x.FL.Method = PField{Offs: 0, Len: 3}
		x.PV.Callid.CallID = PField{Offs: 0, Len: 11}
		x.PV.From.Tag = PField{Offs: 12, Len: 4}
	}
	m.HL.Hdrs, m.HL.N = hs[:h], h
	m2.HL.Hdrs, m2.HL.N = hs2[:n2], n2
	m2.HL.PFlags = m.HL.PFlags
	m2.HL.PFlags.Set(HdrOther)
	s1, r1 := GetMsgSig(&m)
	s2, r2 := GetMsgSig(&m2)
	vAssert("signature-produced", r1 == ErrHdrOk && r2 == ErrHdrOk)
	vAssert("unchanged-by-other-and-repeated-headers", s1 == s2)
	sigPost(&s1)
	// shorter array, same counters
	cut := vChoice(h + 1)
	copy(hs3[:], hs[:])
	m3.HL.Hdrs, m3.HL.N, m3.HL.PFlags = hs3[:cut], h, m.HL.PFlags
	s3, r3 := GetMsgSig(&m3)
	vAssert("short-array-same-or-truncated", (r3 == ErrHdrOk && s3 == s1) || r3 == ErrHdrTrunc)
	if cut == h {
		vAssert("all-fit-same", r3 == ErrHdrOk && s3 == s1)
	}
	vReach("end")
}

// H_C19_via: messages that agree on everything the signature fingerprints
// (same first-Via branch) but differ in what follows the branch inside the
// first Via header (a second comma-separated Via value, a further parameter)
// or carry the second Via in a header of its own: same signature.
func H_C19_via(w int) {
	br := vBytes(w)
	for i := range br {
		c := br[i]
		vAssume(isAlnum(c) || c == '-' || c == '.' || c == '_' || c == '+')
	}
	mk := func(tail string) []byte {
		b := []byte(c19Heads[0])
		b = append(b, "Via: SIP/2.0/UDP h;branch=z9hG4bK"...)
		b = append(b, br...)
		b = append(b, tail...)
		b = append(b, "\r\nf: <sip:a>;tag=x1\r\nTo: <sip:b>\r\ni: ab\r\nCSeq: 1 INVITE\r\n\r\n"...)
		return b
	}
	tails := [...]string{"", ", SIP/2.0/UDP g;branch=z9hG4bKzz", ";rport", " , SIP/2.0/TCP g", "\r\nVia: SIP/2.0/UDP g;branch=z9hG4bKzz"}
	var sigs [len(tails)]MsgSig
	for i := range tails {
		var m PSIPMsg
		var hs [12]Hdr
		e := msgOf(mk(tails[i]), &m, hs[:])
		vAssert("parses", e == 0)
		s, r := GetMsgSig(&m)
		vAssert("signature-produced", r == ErrHdrOk)
		sigs[i] = s
	}
	for i := 1; i < len(tails); i++ {
		vAssert("same-first-via-branch-same-signature", sigs[i] == sigs[0])
	}
	vReach("end")
}

// H_C19_othertags: the values of headers that are not among the fingerprinted
// strings (here: the To tag and a Contact parameter) do not influence the
// signature - with and without a From tag (which == 1: From has no tag).
func H_C19_othertags(which, w int) {
	tv := vBytes(w)
	for i := range tv {
		c := tv[i]
		vAssume(isAlnum(c) || c == '-' || c == '.' || c == '_' || c == '+')
	}
	from := "f:<sip:a>;tag=x-1\r\n"
	if which == 1 {
		from = "f:<sip:a>\r\n"
	}
	pre := c19Heads[0] + "v: SIP/2.0/UDP h;branch=z9hG4bKa1\r\n" + from + "To: <sip:b>;tag="
	post := "\r\ni: ab\r\nCSeq: 1 INVITE\r\nm:<sip:c>;x="
	end := "\r\n\r\n"
	a := []byte(pre + "0" + post + "1" + end)
	b := append([]byte(pre), tv...)
	b = append(b, post...)
	b = append(b, tv...)
	b = append(b, end...)
	var ma, mb PSIPMsg
	ea := msgOf(a, &ma, nil)
	eb := msgOf(b, &mb, nil)
	vAssert("both-parse", ea == 0 && eb == 0)
	sa, ra := GetMsgSig(&ma)
	sb, rb := GetMsgSig(&mb)
	vAssert("same-signature", ra == ErrHdrOk && rb == ErrHdrOk && sa == sb)
	vReach("end")
}
