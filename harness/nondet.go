//go:build verif

package sipsp

// Harness support. Natively the v* functions read a replay vector (a solver
// model or a hand-written input); under the symbolic engine (sver) calls to
// them are intercepted by name and these bodies are never entered.

import (
	"fmt"
)

type vVector struct {
	Bytes   []int `json:"bytes"`
	Bools   []int `json:"bools"`
	U8      []int `json:"u8"`
	U16     []int `json:"u16"`
	U32     []int `json:"u32"`
	Choices []int `json:"choices"`
}

type vRun struct {
	vec                         vVector
	iB, iS, iU8, iU16, iU32, iC int
	log                         []string
	failed                      []string
}

var vCur *vRun

type vAssumeFailed struct{}

func vBytes(n int) []byte {
	b := make([]byte, n)
	for i := range b {
		b[i] = vByte()
	}
	return b
}

func vByte() byte {
	r := vCur
	var v int
	if r.iB < len(r.vec.Bytes) {
		v = r.vec.Bytes[r.iB]
	}
	r.iB++
	return byte(v)
}

func vBool() bool {
	r := vCur
	var v int
	if r.iS < len(r.vec.Bools) {
		v = r.vec.Bools[r.iS]
	}
	r.iS++
	return v != 0
}

func vU8() uint8 {
	r := vCur
	var v int
	if r.iU8 < len(r.vec.U8) {
		v = r.vec.U8[r.iU8]
	}
	r.iU8++
	return uint8(v)
}

func vU16() uint16 {
	r := vCur
	var v int
	if r.iU16 < len(r.vec.U16) {
		v = r.vec.U16[r.iU16]
	}
	r.iU16++
	return uint16(v)
}

func vU32() uint32 {
	r := vCur
	var v int
	if r.iU32 < len(r.vec.U32) {
		v = r.vec.U32[r.iU32]
	}
	r.iU32++
	return uint32(v)
}

// vChoice returns a value in [0,n); the last arm takes all larger selectors.
func vChoice(n int) int {
	r := vCur
	var v int
	if r.iC < len(r.vec.Choices) {
		v = r.vec.Choices[r.iC]
	}
	r.iC++
	if v >= n {
		v = n - 1
	}
	if v < 0 {
		v = 0
	}
	return v
}

func vAssume(c bool) {
	if !c {
		panic(vAssumeFailed{})
	}
}

func vAssert(id string, c bool) {
	r := vCur
	v := 0
	if c {
		v = 1
	}
	r.log = append(r.log, fmt.Sprintf("assert:%s=%d", id, v))
	if !c {
		r.failed = append(r.failed, id)
	}
}

// vAssertKF is an assertion with a known-finding region: when known is true
// the failure belongs to the listed finding kf.
func vAssertKF(id string, kf string, c bool, known bool) {
	r := vCur
	v := 0
	if c {
		v = 1
	}
	r.log = append(r.log, fmt.Sprintf("assert:%s=%d", id, v))
	if !c {
		if known {
			r.failed = append(r.failed, id+"@"+kf)
		} else {
			r.failed = append(r.failed, id)
		}
	}
}

func vReach(id string) {}

func vObs(name string, v int) {
	r := vCur
	r.log = append(r.log, fmt.Sprintf("%s=%d", name, v))
}

func vAnd(a, b bool) bool { return a && b }
func vOr(a, b bool) bool  { return a || b }
func vIte(c bool, a, b int) int {
	if c {
		return a
	}
	return b
}
func vBytesEq(a, b []byte) bool {
	if len(a) != len(b) {
		return false
	}
	for i := range a {
		if a[i] != b[i] {
			return false
		}
	}
	return true
}

// vPad builds a buffer of exactly k prefix bytes (filler 0xAA, ending in the
// last min(k,len(junk)) bytes of junk) followed by text.
func vPad(k int, junk []byte, text []byte) []byte {
	b := make([]byte, 0, k+len(text))
	j := len(junk)
	if j > k {
		j = k
	}
	for i := 0; i < k-j; i++ {
		b = append(b, 0xAA)
	}
	b = append(b, junk[len(junk)-j:]...)
	b = append(b, text...)
	return b
}
