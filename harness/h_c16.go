//go:build verif

package sipsp

// C16: header-name and method classification is total and exactly the table.

// H_C16_hdr: every name of n bytes: GetHdrType == linear scan of the literal
// table with ASCII case folding. n = 0 is the empty name.
func H_C16_hdr(n int) {
	name := vBytes(n)
	want := refHdrType(name)
	got := GetHdrType(name)
	vObs("got", int(got))
	vAssert("hdr-type", int(got) == want)
	vReach("end")
}

// H_C16_mth: every name of n bytes: GetMethodNo == exact-case scan.
func H_C16_mth(n int) {
	name := vBytes(n)
	want := refMethod(name)
	got := GetMethodNo(name)
	vObs("got", int(got))
	vAssert("method-no", int(got) == want)
	vReach("end")
}

// H_C16_round: Name() is total over all 256 values; known methods round-trip.
func H_C16_round() {
	m := SIPMethod(vU8())
	nm := m.Name()
	vAssert("name-total", len(nm) >= 0)
	if m >= MRegister && m < MOther {
		vAssert("round-trip", GetMethodNo(nm) == m)
	}
	s := m.String()
	vAssert("string-total", len(s) == len(nm))
	vReach("end")
}

// H_C16_parse: ParseHdrLine assigns exactly refHdrType to the name it accepts
// (W symbolic name bytes, optional blank before the colon).
func H_C16_parse(n int, sp int) { c16parse(n, sp, 0, false) }

// H_C16_parse_at: the header line starts at offset k of the buffer.
func H_C16_parse_at(n, sp, k int) { c16parse(n, sp, k, false) }

// H_C16_parse_chunk: ... and arrives in two pieces (every cut).
func H_C16_parse_chunk(n, sp, k int) { c16parse(n, sp, k, true) }

func c16parse(n, sp, k int, chunked bool) {
	name := vBytes(n)
	buf := append([]byte(nil), name...)
	if sp == 1 {
		buf = append(buf, ' ')
	} else if sp == 2 {
		buf = append(buf, '\t', ' ')
	}
	buf = append(buf, ':', 'x', '\r', '\n', 'Y')
	if k > 0 {
		buf = vPad(k, []byte{'\r', '\n'}, buf)
	}
	var h Hdr
	o, e := k, ErrHdrMoreBytes
	if chunked {
		c := 1 + vChoice(len(buf)-k-1)
		o, e = ParseHdrLine(buf[:k+c], k, &h, nil)
		if e != ErrHdrMoreBytes {
			h.Reset()
			o = k
		}
	}
	o, e = ParseHdrLine(buf, o, &h, nil)
	vObs("o", o)
	vObs("e", int(e))
	if e == 0 && int(h.Name.Len) == n && int(h.Name.Offs) == k {
		vAssert("parsed-type", int(h.Type) == refHdrType(name))
		vReach("accepted")
	}
	vReach("end")
}

// H_C16_str: HdrT.String and HdrFlags are total for every type value.
func H_C16_str() {
	t := HdrT(vU16())
	s := t.String()
	vAssert("string-total", len(s) > 0)
	if t <= HdrOther {
		var f HdrFlags
		f.Set(t)
		vAssert("flag-set", f.Test(t))
		vAssert("flag-any", f.Any(t) && f.AllSet(t))
		f.Clear(t)
		vAssert("flag-clear", !f.Test(t) && f == 0)
	}
	vReach("end")
}

// H_C16_twice: a header block with value parsers attached in which a header
// of kind k (0 From, 1 To, 2 Call-ID, 3 CSeq, 4 Contact, 5 Expires, 6
// Content-Length, 7 P-Asserted-Identity, 8 Via; names in symbolic letter
// case) occurs twice: every occurrence gets the table's classification.
func H_C16_twice(k int) {
	names := [...]string{"From", "To", "Call-ID", "CSeq", "Contact", "Expires", "Content-Length", "P-Asserted-Identity", "Via"}
	vals := [...]string{"<a>;tag=1", "<b>", "x1", "1 INVITE", "<c>;expires=5", "300", "0", "<d>", "SIP/2.0/UDP h"}
	var x nb
	x.ci(names[k])
	x.lit(": " + vals[k] + "\r\nX-a: b\r\n")
	x.ci(names[k])
	x.lit(" : " + vals[k] + "\r\n\r\n")
	var hl HdrLst
	var hb [4]Hdr
	hl.Hdrs = hb[:]
	var pv PHdrVals
	o, e := ParseHeaders(x.b, 0, &hl, &pv)
	vObs("o", o)
	vObs("e", int(e))
	vAssert("accepted", e == 0 && hl.N == 3)
	if e != 0 || hl.N != 3 {
		return
	}
	want := refHdrType([]byte(names[k]))
	vAssert("first-occurrence-type", int(hl.Hdrs[0].Type) == want)
	vAssert("other-header-type", hl.Hdrs[1].Type == HdrOther)
	vAssert("second-occurrence-type", int(hl.Hdrs[2].Type) == want)
	vReach("end")
}
