//go:build verif

package sipsp

// C17: parameter-list parsing is faithful (post-condition oracle: soundness
// of every reported span + completeness: nothing but separators and linear
// whitespace lies outside the reported parameters).

// refTokChar: the documented name/value character set.
func refTokChar(c byte, uriParam bool) bool {
	if (c >= '0' && c <= '9') || (c >= 'A' && c <= 'Z') || (c >= 'a' && c <= 'z') {
		return true
	}
	switch c {
	case '-', '_', '.', '!', '~', '*', '\'', '(', ')', '%', '[', ']', '/', ':', '+', '$':
		return true
	case '&':
		return uriParam
	case '?':
		return !uriParam
	}
	return false
}

func isLWSByte(c byte) bool { return c == ' ' || c == '\t' || c == '\r' || c == '\n' }

var c17flags = [...]POptFlags{
	0: POptParamSemiSepF,
	1: POptParamSemiSepF | POptTokCommaTermF,
	2: POptParamSemiSepF | POptInputEndF,
	3: POptTokURIParamF | POptInputEndF,
	4: POptTokURIHdrF | POptInputEndF,
	5: POptParamSemiSepF | POptTokCommaTermF | POptInputEndF,
	6: POptParamSemiSepF | POptTokQmTermF,
}

func H_C17_tok(t, w, fs int) { c17tok(t, w, fs, false) }

// H_C17_tok_chunk: the same loop over an input that arrives in two pieces
// (every cut, chosen symbolically): the call that asks for more bytes is
// repeated with the whole input from the offset it returned. Only for option
// sets without the end-of-input option.
func H_C17_tok_chunk(t, w, fs int) {
	if c17tok(t, w, fs, true) > 0 {
		vReach("resumed")
	}
}

// c17tok returns the number of resumed calls.
func c17tok(t, w, fs int, chunked bool) int {
	buf := vTpl(t, w)
	n := len(buf)
	lim := n
	if chunked {
		lim = 1 + vChoice(n-1)
	}
	flags := c17flags[fs]
	uriParam := flags&POptTokURIParamF != 0
	sep := byte(';')
	if flags&(POptParamAmpSepF|POptTokURIHdrF) != 0 {
		sep = '&'
	}
	term := byte(0)
	if flags&(POptTokQmTermF|POptTokURIParamF) != 0 {
		term = '?'
	} else if flags&POptTokCommaTermF != 0 {
		term = ','
	}
	var prm PTokParam
	offs := 0
	covered := 0 // everything before this index has been accounted for
	cnt := 0
	resumed := false
	nres := 0
	pstart := 0 // where the parsing of the current parameter started
	for {
		if !resumed {
			prm.Reset()
			pstart = offs
		}
		resumed = false
		o, e := ParseTokenParam(buf[:lim], offs, &prm, flags)
		vObs("o", o)
		vObs("e", int(e))
		if e == ErrHdrMoreBytes && lim < n {
			vAssert("offset-in-range", o >= offs && o <= lim)
			lim = n
			offs = o
			resumed = true
			nres++
			continue
		}
		if e != ErrHdrOk && e != ErrHdrEOH && e != ErrHdrMoreValues {
			vReach("not-a-list")
			return nres
		}
		vAssert("offset-in-range", o >= offs && o <= n)
		if !prm.Empty() || prm.Name.Len > 0 {
			cnt++
			nm, vl, all := prm.Name, prm.Val, prm.All
			vAssert("name-nonempty-inside-all", nm.Len > 0 && pfSub(nm, all) && pfIn(all, pstart, n))
			for i := int(nm.Offs); i < pfEnd(nm); i++ {
				vAssert("name-charset", refTokChar(buf[i], uriParam))
			}
			// only separators / LWS between the accounted part and this name
			// (an '=' may belong to the previous parameter's empty value)
			for i := covered; i < int(nm.Offs); i++ {
				vAssert("only-lws-and-separators-skipped", vOr(vOr(isLWSByte(buf[i]), buf[i] == sep), buf[i] == '='))
			}
			covered = pfEnd(nm)
			if vl.Len > 0 {
				vAssert("value-inside-all-after-name", pfSub(vl, all) && int(vl.Offs) > pfEnd(nm))
				eqs := 0
				for i := pfEnd(nm); i < int(vl.Offs); i++ {
					vAssert("only-lws-and-equals-between-name-and-value", vOr(isLWSByte(buf[i]), buf[i] == '='))
					eqs = eqs + vIte(buf[i] == '=', 1, 0)
				}
				vAssert("exactly-one-equals", eqs == 1)
				if buf[vl.Offs] == '"' {
					vAssert("quoted-value-complete", vl.Len >= 2 && buf[pfEnd(vl)-1] == '"')
					// escapes honoured: the value ends at the first quote
					// that is not preceded by an (unescaped) backslash
					q := int(vl.Offs) + 1
					for q < pfEnd(vl)-1 && buf[q] != '"' {
						if buf[q] == '\\' {
							q++
						}
						q++
					}
					vAssert("quoted-value-ends-at-first-unescaped-quote", q == pfEnd(vl)-1)
				} else {
					for i := int(vl.Offs); i < pfEnd(vl); i++ {
						vAssert("value-charset", refTokChar(buf[i], uriParam))
					}
				}
				covered = pfEnd(vl)
			}
		}
		if e == ErrHdrMoreValues {
			offs = o
			continue
		}
		// the list ended: what lies between the last parameter and the end?
		stop := o
		if e == ErrHdrOk && o < n {
			// terminator: the configured char, or whitespace-then-token
			vAssert("stops-at-terminator", vOr(term != 0 && buf[o] == term, flags&POptTokSpTermF != 0))
		}
		if e == ErrHdrEOH && o < n {
			vAssert("eoh-after-line-end", o > 0 && vAnd(vOr(buf[o-1] == '\n', buf[o-1] == '\r'), !isWS(buf[o])))
		}
		for i := covered; i < stop; i++ {
			vAssert("only-lws-and-separators-skipped", vOr(vOr(isLWSByte(buf[i]), buf[i] == sep), buf[i] == '='))
		}
		vReach("list-end")
		return nres
	}
}

// H_C17_lists: the list wrappers count every parameter, classify the known
// URI parameters case-insensitively and accumulate the type flags.
func H_C17_lists(t, w, pcap int) {
	buf := vTpl(t, w)
	var l URIParamsLst
	var pb [3]URIParam
	l.Init(pb[:pcap])
	o, k, e := ParseAllURIParams(buf, 0, &l, POptTokURIParamF|POptInputEndF)
	vObs("o", o)
	vObs("e", int(e))
	if e != ErrHdrOk && e != ErrHdrEOH {
		vReach("not-a-list")
		return
	}
	// reference: parse one by one into an ample list
	var prm PTokParam
	offs, cnt := 0, 0
	var types URIParamF
	for {
		prm.Reset()
		o2, e2 := ParseTokenParam(buf, offs, &prm, POptTokURIParamF|POptInputEndF|POptParamSemiSepF)
		if e2 != ErrHdrOk && e2 != ErrHdrEOH && e2 != ErrHdrMoreValues {
			break
		}
		nm := prm.Name.Get(buf)
		ty := URIParamOtherF
		names := [...]string{"transport", "user", "method", "ttl", "maddr", "lr"}
		fl := [...]URIParamF{URIParamTransportF, URIParamUserF, URIParamMethodF, URIParamTTLF, URIParamMaddrF, URIParamLRF}
		tyv := int(ty)
		for q := 0; q < len(names); q++ {
			tyv = vIte(refEqFold(nm, names[q]), int(fl[q]), tyv)
		}
		types |= URIParamF(tyv)
		if cnt < pcap {
			vAssert("stored-param-type", int(l.Params[cnt].T) == tyv)
			vAssert("stored-param-spans", l.Params[cnt].Param.Name == prm.Name && l.Params[cnt].Param.Val == prm.Val)
		}
		cnt++
		if e2 != ErrHdrMoreValues {
			break
		}
		offs = o2
	}
	vAssert("count-includes-dropped", l.N == cnt && k == cnt)
	vAssert("types-accumulated", l.Types == types)
	vAssert("more-indicator", l.More() == (cnt > pcap))
	vReach("list-end")
}

// H_C17_shape: completeness - a well-formed list built by construction
// ("n1=v1 SEP n2 SEP n3="q..."" + end) from symbolic bytes of the documented
// character set is accepted and reported exactly: three parameters, in order,
// with exactly the names and values written. fs as in c17flags.
func H_C17_shape(fs, w int) {
	flags := c17flags[fs]
	uriParam := flags&POptTokURIParamF != 0
	sep := byte(';')
	if flags&(POptParamAmpSepF|POptTokURIHdrF) != 0 {
		sep = '&'
	}
	term := byte(0)
	if flags&(POptTokQmTermF|POptTokURIParamF) != 0 {
		term = '?'
	} else if flags&POptTokCommaTermF != 0 {
		term = ','
	}
	tokc := func(c byte) bool {
		// every byte of the documented set of this mode ('?' outside
		// URI-parameter mode, '&' inside it) unless it is this mode's
		// separator or terminator
		return refTokChar(c, uriParam) && c != sep && c != term
	}
	var b []byte
	n1s := len(b)
	n1 := vBytes(w)
	for i := range n1 {
		vAssume(tokc(n1[i]))
	}
	b = append(b, n1...)
	n1e := len(b)
	b = append(b, '=')
	v1s := len(b)
	v1 := vBytes(w)
	for i := range v1 {
		vAssume(tokc(v1[i]))
	}
	b = append(b, v1...)
	v1e := len(b)
	b = append(b, sep)
	if vBool() {
		b = append(b, ' ')
	}
	n2s := len(b)
	n2 := vBytes(1)
	vAssume(tokc(n2[0]))
	b = append(b, n2...)
	n2e := len(b)
	if vBool() {
		b = append(b, '\t')
	}
	b = append(b, sep)
	n3s := len(b)
	b = append(b, 'k')
	n3e := len(b)
	b = append(b, '=', '"')
	q := vBytes(2)
	for i := range q {
		vAssume(q[i] != '"' && q[i] != '\\' && q[i] != '\r' && q[i] != '\n' && q[i] != 0x7f && (q[i] >= ' ' || q[i] == '\t'))
	}
	b = append(b, q...)
	b = append(b, '"')
	v3s, v3e := n3e+1, len(b)
	end := len(b)
	if flags&POptInputEndF == 0 {
		b = append(b, '\r', '\n', 'X')
	}
	want := [3][4]int{{n1s, n1e, v1s, v1e}, {n2s, n2e, 0, 0}, {n3s, n3e, v3s, v3e}}
	var prm PTokParam
	offs := 0
	for k := 0; k < 3; k++ {
		prm.Reset()
		o, e := ParseTokenParam(b, offs, &prm, flags)
		vObs("o", o)
		vObs("e", int(e))
		if k < 2 {
			vAssert("more-values-follow", e == ErrHdrMoreValues)
		} else {
			vAssert("list-ends", vOr(e == ErrHdrEOH, e == ErrHdrOk) && o >= end && o <= len(b))
		}
		if e != ErrHdrMoreValues && e != ErrHdrEOH && e != ErrHdrOk {
			return
		}
		vAssert("name-as-written", pfIs(prm.Name, want[k][0], want[k][1]))
		if want[k][3] > 0 {
			vAssert("value-as-written", pfIs(prm.Val, want[k][2], want[k][3]))
		} else {
			vAssert("no-value", prm.Val.Len == 0)
		}
		offs = o
	}
	vReach("end")
}

// H_C17_emptyval: completeness for an empty value that is not the last
// item ("n1=" SEP "n2=v2" + end): the first parameter is reported with its
// name as written and an empty value, and the list continues. fs as in
// c17flags.
func H_C17_emptyval(fs, w int) {
	flags := c17flags[fs]
	uriParam := flags&POptTokURIParamF != 0
	sep := byte(';')
	if flags&(POptParamAmpSepF|POptTokURIHdrF) != 0 {
		sep = '&'
	}
	term := byte(0)
	if flags&(POptTokQmTermF|POptTokURIParamF) != 0 {
		term = '?'
	} else if flags&POptTokCommaTermF != 0 {
		term = ','
	}
	var b []byte
	n1 := vBytes(w)
	for i := range n1 {
		vAssume(refTokChar(n1[i], uriParam) && n1[i] != sep && n1[i] != term)
	}
	b = append(b, n1...)
	n1e := len(b)
	b = append(b, '=', sep)
	if vBool() {
		b = append(b, ' ')
	}
	n2s := len(b)
	n2 := vBytes(1)
	vAssume(refTokChar(n2[0], uriParam) && n2[0] != sep && n2[0] != term)
	b = append(b, n2...)
	b = append(b, '=')
	v2 := vBytes(1)
	vAssume(refTokChar(v2[0], uriParam) && v2[0] != sep && v2[0] != term)
	b = append(b, v2...)
	end := len(b)
	if flags&POptInputEndF == 0 {
		b = append(b, '\r', '\n', 'X')
	}
	var prm PTokParam
	o, e := ParseTokenParam(b, 0, &prm, flags)
	vObs("o", o)
	vObs("e", int(e))
	vAssert("empty-value-more-values-follow", e == ErrHdrMoreValues)
	if e != ErrHdrMoreValues {
		return
	}
	vAssert("empty-value-name-as-written", pfIs(prm.Name, 0, n1e))
	vAssert("empty-value-reported-empty", prm.Val.Len == 0)
	prm.Reset()
	o, e = ParseTokenParam(b, o, &prm, flags)
	vObs("o2", o)
	vObs("e2", int(e))
	vAssert("empty-value-list-ends", vOr(e == ErrHdrEOH, e == ErrHdrOk) && o >= end && o <= len(b))
	if e != ErrHdrEOH && e != ErrHdrOk {
		return
	}
	vAssert("empty-value-next-as-written", vAnd(pfIs(prm.Name, n2s, n2s+1), pfIs(prm.Val, n2s+2, n2s+3)))
	vReach("end")
}

// H_C17_hlists: the URI-header list wrapper counts every header (stored or
// not), returns that count, keeps the stored prefix exact and reports More().
func H_C17_hlists(t, w, hcap int) {
	buf := vTpl(t, w)
	var l URIHdrsLst
	var hb [3]URIHdr
	l.Init(hb[:hcap])
	o, k, e := ParseAllURIHdrs(buf, 0, &l, POptTokURIHdrF|POptInputEndF)
	vObs("o", o)
	vObs("e", int(e))
	if e != ErrHdrOk && e != ErrHdrEOH {
		vReach("not-a-list")
		return
	}
	var prm PTokParam
	offs, cnt := 0, 0
	for {
		prm.Reset()
		o2, e2 := ParseTokenParam(buf, offs, &prm, POptTokURIHdrF|POptInputEndF|POptParamAmpSepF)
		if e2 != ErrHdrOk && e2 != ErrHdrEOH && e2 != ErrHdrMoreValues {
			break
		}
		if cnt < hcap {
			vAssert("stored-header-spans", l.Hdrs[cnt].Name == prm.Name && l.Hdrs[cnt].Val == prm.Val)
		}
		cnt++
		if e2 != ErrHdrMoreValues {
			break
		}
		offs = o2
	}
	vAssert("count-includes-dropped", l.N == cnt && k == cnt)
	vAssert("more-indicator", l.More() == (cnt > hcap))
	vReach("list-end")
}
