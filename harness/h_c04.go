//go:build verif

package sipsp

// C04: crash-free, terminating, offset-sane on arbitrary bytes. Panics,
// out-of-range accesses and non-termination are proof obligations of the
// engine for every executed instruction; these harnesses drive the exported
// entry points with hostile input and add the offset-sanity assertions.

// H_C04_parse: any adapter, any start offset inside the buffer, any bytes.
func H_C04_parse(id, n int) {
	buf := vBytes(n)
	p := vParserByID(id)
	start := vChoice(n + 1)
	o, e := p.parse(0, buf, start)
	vObs("o", o)
	vObs("e", int(e))
	vAssert("offset-inside-buffer", o >= 0 && o <= n)
	if e == ErrHdrOk || e == ErrHdrMoreBytes || e == ErrHdrMoreValues || e == ErrHdrEOH || e == ErrHdrEmpty {
		vAssert("offset-not-before-start", o >= start)
	}
	// resume once more on the same buffer: still sane
	if e == ErrHdrMoreBytes {
		o2, _ := p.parse(0, buf, o)
		vAssert("offset-inside-buffer", o2 >= 0 && o2 <= n)
	}
	vReach("end")
}

func fieldOK(f PField, n int) bool {
	return int(f.Offs)+int(f.Len) <= n && int(f.Offs+f.Len) >= int(f.Offs)
}

func fromFieldsOK(f *PFromBody, n int) bool {
	return fieldOK(f.Name, n) && fieldOK(f.URI, n) && fieldOK(f.Tag, n) && fieldOK(f.Params, n) && fieldOK(f.V, n)
}

// H_C04_msg: whole message on arbitrary bytes (template t), symbolic flags,
// capacities; after any verdict every reported field can be dereferenced.
func H_C04_msg(t, w, hcap, ccap int) {
	buf := vTpl(t, w)
	n := len(buf)
	var m PSIPMsg
	var hb [3]Hdr
	var cb [2]PFromBody
	var hs []Hdr
	var cs []PFromBody
	if hcap >= 0 {
		hs = hb[:hcap]
	}
	if ccap >= 0 {
		cs = cb[:ccap]
	}
	m.Init(nil, hs, cs)
	flags := vU8() & 7
	cut := n
	if n > 1 {
		cut = 1 + vChoice(n)
	}
	o, e := ParseSIPMsg(buf[:cut], 0, &m, flags)
	vAssert("offset-inside-buffer", o >= 0 && o <= cut)
	if e == ErrHdrMoreBytes && cut < n {
		o, e = ParseSIPMsg(buf, o, &m, flags)
		vAssert("offset-inside-buffer", o >= 0 && o <= n)
	}
	vObs("o", o)
	vObs("e", int(e))
	fl := &m.FL
	vAssert("fline-fields-dereferencable", fieldOK(fl.Method, n) && fieldOK(fl.URI, n) && fieldOK(fl.Version, n) && fieldOK(fl.StatusCode, n) && fieldOK(fl.Reason, n))
	for i := 0; i < len(m.HL.Hdrs); i++ {
		vAssert("header-fields-dereferencable", fieldOK(m.HL.Hdrs[i].Name, n) && fieldOK(m.HL.Hdrs[i].Val, n))
	}
	for t := HdrNone + 1; t < HdrOther; t++ {
		h := m.HL.GetHdr(t)
		vAssert("first-of-type-dereferencable", fieldOK(h.Name, n) && fieldOK(h.Val, n))
	}
	pv := &m.PV
	vAssert("from-to-dereferencable", fromFieldsOK(&pv.From, n) && fromFieldsOK(&pv.To, n))
	vAssert("callid-cseq-dereferencable", fieldOK(pv.Callid.CallID, n) && fieldOK(pv.CSeq.CSeq, n) && fieldOK(pv.CSeq.Method, n) && fieldOK(pv.CSeq.V, n))
	vAssert("clen-expires-dereferencable", fieldOK(pv.CLen.SVal, n) && fieldOK(pv.Expires.SVal, n))
	for i := 0; i < pv.Contacts.VNo(); i++ {
		vAssert("contact-dereferencable", fromFieldsOK(&pv.Contacts.Vals[i], n))
	}
	for i := 0; i < pv.PAIs.VNo(); i++ {
		vAssert("pai-dereferencable", fromFieldsOK(&pv.PAIs.Vals[i], n))
	}
	vAssert("lastval-dereferencable", fieldOK(pv.Contacts.LastHVal, n) && fieldOK(pv.PAIs.LastHVal, n))
	vAssert("body-dereferencable", fieldOK(m.Body, n))
	// the signature of whatever was parsed does not crash either
	if e == 0 {
		s, _ := GetMsgSig(&m)
		_ = s.String()
	}
	vReach("end")
}

// H_C04_msg_at: a message with Content-Length / body starting at offset k of
// a longer buffer, one symbolic cut, symbolic flags: offsets stay inside the
// buffer that was actually passed, no panic.
func H_C04_msg_at(t, w, k int) {
	junk := vBytes(2)
	text := vTpl(t, w)
	buf := vPad(k, junk, text)
	n := len(buf)
	var m PSIPMsg
	m.Init(nil, nil, nil)
	flags := vU8() & 7
	cut := k + 1 + vChoice(n-k)
	if cut > n {
		cut = n
	}
	// the slice has no spare capacity: reading past cut would panic
	part := buf[:cut:cut]
	o, e := ParseSIPMsg(part, k, &m, flags)
	vAssert("offset-inside-buffer", o >= 0 && o <= cut)
	if e == 0 {
		vAssert("body-inside-buffer", fieldOK(m.Body, cut) && len(m.Buf) <= cut)
	}
	if e == ErrHdrMoreBytes && cut < n {
		o, e = ParseSIPMsg(buf, o, &m, flags)
		vAssert("offset-inside-buffer", o >= 0 && o <= n)
		if e == 0 {
			vAssert("body-inside-buffer", fieldOK(m.Body, n) && len(m.Buf) <= n)
		}
	}
	vObs("o", o)
	vObs("e", int(e))
	vReach("end")
}

// H_C04_lookup: lookups on every name including the empty one; error and
// enum stringers total.
func H_C04_lookup(n int) {
	name := vBytes(n)
	t := GetHdrType(name)
	m := GetMethodNo(name)
	vAssert("lookup-results-in-range", t >= HdrFrom && t <= HdrOther && m >= MRegister && m <= MOther)
	r := URIParamResolve(name)
	vAssert("param-resolve-single-flag", r != 0 && r&(r-1) == 0)
	v, ok := hexToU(name)
	_, _ = v, ok
	hexToI(name)
	vReach("end")
}

func H_C04_enums() {
	e := ErrorHdr(vU8())
	if e <= ErrHdrTooManyVals {
		s := e.Error()
		vAssert("error-text", len(s) > 0)
	}
	c := e.ErrorConv()
	vAssert("error-conv-nil-only-for-ok", (c == nil) == (e == 0))
	u := ErrorURI(vU8())
	if u <= ErrURIBug {
		vAssert("uri-error-text", len(u.Error()) > 0)
	}
	sc := URIScheme(int8(vU8()))
	vAssert("scheme-text", len(sc.String()) > 0)
	vReach("end")
}

// H_C04_uri: compare / parse / relocate entry points on arbitrary bytes.
func H_C04_uri(n1, n2 int) {
	b1 := vBytes(n1)
	b2 := vBytes(n2)
	f := URICmpFlags(vU8())
	var r1, r2 PsipURI
	URIParseCmp(b1, b2, f, &r1, &r2)
	URIRawCmp(b1, b2, f)
	URIParamsEq(b1, 0, b2, 0)
	URIHdrsEq(b1, 0, b2, 0)
	var u PsipURI
	e, o := ParseURI(b1, &u)
	vAssert("uri-offset-inside", o >= 0 && o <= n1)
	vAssert("uri-fields-dereferencable", fieldOK(u.Scheme, n1) && fieldOK(u.User, n1) && fieldOK(u.Pass, n1) && fieldOK(u.Host, n1) && fieldOK(u.Port, n1) && fieldOK(u.Params, n1) && fieldOK(u.Headers, n1))
	if e == NoURIErr {
		u.Flat(b1)
		u.Short()
		no, nl := vU16(), vU16()
		vAssume(int(no)+int(nl) <= 65535) // a span inside the 65535-byte addressing limit
		np := PField{Offs: OffsT(no), Len: OffsT(nl)}
		u.AdjustOffs(np)
		u.Truncate()
	}
	vReach("end")
}

// H_C04_ip: the address detectors with every destination size.
func H_C04_ip(n, dl int) {
	buf := vBytes(n)
	var d [20]byte
	var dst []byte
	if dl >= 0 {
		dst = d[:dl]
	}
	_, o4, _ := IP4Prefix(buf, dst)
	_, o6, _ := IP6Prefix(buf, dst)
	vAssert("ip-offsets-inside", o4 >= 0 && o4 <= n && o6 >= 0 && o6 <= n)
	f4, a4, l4 := ContainsIP4(buf, dst)
	f6, a6, l6 := ContainsIP6(buf, dst)
	if f4 {
		vAssert("ip4-span-inside", a4 >= 0 && l4 > 0 && a4+l4 <= n)
	}
	if f6 {
		vAssert("ip6-span-inside", a6 >= 0 && l6 > 0 && a6+l6 <= n)
	}
	vReach("end")
}

// H_C04_sig: signature helpers on arbitrary strings.
func H_C04_sig(n int) {
	s := vBytes(n)
	GetCallIDSig(s)
	GetViaBrSig(s)
	var h Hdr
	h.Type = HdrT(vU16())
	h.Name.Len = OffsT(vU8())
	id, e := GetHdrSigId(h)
	vAssert("sig-id-or-error", e != ErrHdrOk || id&^HdrSigIdCMask < 8)
	vReach("end")
}

// H_C04_api: the small exported accessors / resets of every parser object
// after an arbitrary (possibly failed or suspended) parse.
func H_C04_api(kind, n int) {
	buf := vBytes(n)
	switch kind {
	case 0:
		var fl PFLine
		ParseFLine(buf, 0, &fl)
		_ = fl.Empty() || fl.Parsed() || fl.Pending() || fl.Request()
		fl.Reset()
		vAssert("reset-empty", fl.Empty())
	case 1:
		var cs PCSeqBody
		ParseCSeqVal(buf, 0, &cs)
		_ = cs.Empty() || cs.Parsed() || cs.Pending()
		cs.Reset()
		var ci PCallIDBody
		ParseCallIDVal(buf, 0, &ci)
		_ = ci.Empty() || ci.Parsed() || ci.Pending()
		ci.Reset()
		var u PUIntBody
		ParseExpiresVal(buf, 0, &u)
		_ = u.Empty() || u.Parsed() || u.Pending()
		u.Reset()
		vAssert("reset-empty", cs.Empty() && ci.Empty() && u.Empty())
	case 2:
		var pf PFromBody
		ParseFromVal(buf, 0, &pf)
		_ = pf.Empty() || pf.Parsed() || pf.Pending()
		pf.Reset()
		vAssert("reset-empty", pf.Empty())
	case 3:
		var c PContacts
		var cb [1]PFromBody
		c.Init(cb[:])
		ParseAllContactValues(buf, 0, &c)
		vb := c.Empty()
		vb = c.Parsed() != vb
		vb = c.More() != vb
		_ = vb
		for i := -1; i <= c.N; i++ {
			if g := c.GetContact(i); g != nil {
				_ = g.Parsed()
			}
		}
		vAssert("vno-bounded", c.VNo() <= 1)
		c.Reset()
		vAssert("reset-empty", c.Empty())
	case 4:
		var c PPAIs
		c.Init()
		ParseAllPAIValues(buf, 0, &c)
		vb := c.Empty()
		vb = c.Parsed() != vb
		vb = c.More() != vb
		_ = vb
		for i := -1; i <= c.N; i++ {
			if g := c.GetPAI(i); g != nil {
				_ = g.Parsed()
			}
		}
		vAssert("vno-bounded", c.VNo() <= 2)
		c.Reset()
		vAssert("reset-empty", c.Empty())
	case 5:
		var hl HdrLst
		var hb [1]Hdr
		hl.Hdrs = hb[:]
		var pv PHdrVals
		pv.Init(nil)
		ParseHeaders(buf, 0, &hl, &pv)
		for t := HdrNone; t <= HdrOther+1; t++ {
			if h := hl.GetHdr(t); h != nil {
				_ = h.Missing()
			}
			_ = t.String()
			_ = hl.PFlags.Test(t) || hl.PFlags.Any(t, HdrFrom) || hl.PFlags.AllSet(t, HdrTo)
		}
		var h2 Hdr
		h2.Type = HdrT(vU16())
		hl.SetHdr(&h2)
		_, _ = pv.MaxExpires()
		_ = pv.GetFrom() != nil && pv.GetTo() != nil && pv.GetCallID() != nil && pv.GetCSeq() != nil && pv.GetCLen() != nil && pv.GetContacts() != nil && pv.GetExpires() != nil && pv.GetPAIs() != nil
		hl.PFlags.Clear(HdrFrom)
		hl.PFlags.Reset()
		hl.Reset()
		pv.Reset()
		vAssert("reset-empty", hl.N == 0 && hl.PFlags == 0)
	case 6:
		var m PSIPMsg
		m.Init(nil, nil, nil)
		ParseSIPMsg(buf, 0, &m, vU8()&7)
		_ = m.Parsed() || m.Err() || m.Request()
		mt := m.Method()
		_ = mt.Name()
		_ = mt.String()
		m.Reset()
		vAssert("reset-empty", !m.Parsed() && !m.Err())
	case 7:
		var p PTokParam
		ParseTokenParam(buf, 0, &p, POptFlags(vU8()))
		_ = p.Empty()
		p.Reset()
		var l URIParamsLst
		var pb [1]URIParam
		l.Init(pb[:])
		ParseAllURIParams(buf, 0, &l, POptInputEndF)
		_ = l.Empty() || l.More()
		vAssert("pno-bounded", l.PNo() <= 1)
		l.Reset()
		var hl URIHdrsLst
		var hb [1]URIHdr
		hl.Init(hb[:])
		ParseAllURIHdrs(buf, 0, &hl, POptInputEndF)
		_ = hl.Empty() || hl.More()
		vAssert("hno-bounded", hl.HNo() <= 1)
		hl.Reset()
		var up URIParam
		up.Reset()
		var uh URIHdr
		uh.Reset()
		vAssert("reset-empty", l.Empty() && hl.Empty() && p.Empty())
	case 8:
		buf = vURIBuf(0, n)
		b2 := vURIBuf(0, 2)
		var u1, u2 PsipURI
		e1, _ := ParseURI(buf, &u1)
		e2, _ := ParseURI(b2, &u2)
		if e1 == NoURIErr && e2 == NoURIErr {
			f := URICmpFlags(vU8())
			URICmp(&u1, buf, &u2, b2, f)
			URICmpShort(&u1, buf, &u2, b2, f)
		}
		u1.Long()
		u1.Short()
		if e1 == NoURIErr {
			u1.Flat(buf)
			no, nl := vU16(), vU16()
			vAssume(int(no)+int(nl) <= 65535)
			u1.AdjustOffs(PField{Offs: OffsT(no), Len: OffsT(nl)})
		}
		u1.Truncate()
		u1.Reset()
	}
	vReach("end")
}
