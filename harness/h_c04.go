//go:build verif

package sipsp

// C04: crash-free, terminating, offset-sane on arbitrary bytes. Panics,
// out-of-range accesses and non-termination are proof obligations of the
// engine for every executed instruction; these harnesses drive the exported
// entry points with hostile input and add the offset-sanity assertions.

// H_C04_parse: any adapter, any start offset inside the buffer, any bytes.
func H_C04_parse(id, n int) {
	buf := vBytes(n)
	p := vParserByID(id)
	start := vChoice(n + 1)
	o, e := p.parse(0, buf, start)
	vObs("o", o)
	vObs("e", int(e))
	vAssert("offset-inside-buffer", o >= 0 && o <= n)
	if e == ErrHdrOk || e == ErrHdrMoreBytes || e == ErrHdrMoreValues || e == ErrHdrEOH || e == ErrHdrEmpty {
		vAssert("offset-not-before-start", o >= start)
	}
	// resume once more on the same buffer: still sane
	if e == ErrHdrMoreBytes {
		o2, _ := p.parse(0, buf, o)
		vAssert("offset-inside-buffer", o2 >= 0 && o2 <= n)
	}
	vReach("end")
}

func fieldOK(f PField, n int) bool { return int(f.Offs)+int(f.Len) <= n && int(f.Offs+f.Len) >= int(f.Offs) }

func fromFieldsOK(f *PFromBody, n int) bool {
	return fieldOK(f.Name, n) && fieldOK(f.URI, n) && fieldOK(f.Tag, n) && fieldOK(f.Params, n) && fieldOK(f.V, n)
}

// H_C04_msg: whole message on arbitrary bytes (template t), symbolic flags,
// capacities; after any verdict every reported field can be dereferenced.
func H_C04_msg(t, w, hcap, ccap int) {
	buf := vTpl(t, w)
	n := len(buf)
	var m PSIPMsg
	var hb [3]Hdr
	var cb [2]PFromBody
	var hs []Hdr
	var cs []PFromBody
	if hcap >= 0 {
		hs = hb[:hcap]
	}
	if ccap >= 0 {
		cs = cb[:ccap]
	}
	m.Init(nil, hs, cs)
	flags := vU8() & 7
	cut := n
	if n > 1 {
		cut = 1 + vChoice(n)
	}
	o, e := ParseSIPMsg(buf[:cut], 0, &m, flags)
	vAssert("offset-inside-buffer", o >= 0 && o <= cut)
	if e == ErrHdrMoreBytes && cut < n {
		o, e = ParseSIPMsg(buf, o, &m, flags)
		vAssert("offset-inside-buffer", o >= 0 && o <= n)
	}
	vObs("o", o)
	vObs("e", int(e))
	fl := &m.FL
	vAssert("fline-fields-dereferencable", fieldOK(fl.Method, n) && fieldOK(fl.URI, n) && fieldOK(fl.Version, n) && fieldOK(fl.StatusCode, n) && fieldOK(fl.Reason, n))
	for i := 0; i < len(m.HL.Hdrs); i++ {
		vAssert("header-fields-dereferencable", fieldOK(m.HL.Hdrs[i].Name, n) && fieldOK(m.HL.Hdrs[i].Val, n))
	}
	for t := HdrNone + 1; t < HdrOther; t++ {
		h := m.HL.GetHdr(t)
		vAssert("first-of-type-dereferencable", fieldOK(h.Name, n) && fieldOK(h.Val, n))
	}
	pv := &m.PV
	vAssert("from-to-dereferencable", fromFieldsOK(&pv.From, n) && fromFieldsOK(&pv.To, n))
	vAssert("callid-cseq-dereferencable", fieldOK(pv.Callid.CallID, n) && fieldOK(pv.CSeq.CSeq, n) && fieldOK(pv.CSeq.Method, n) && fieldOK(pv.CSeq.V, n))
	vAssert("clen-expires-dereferencable", fieldOK(pv.CLen.SVal, n) && fieldOK(pv.Expires.SVal, n))
	for i := 0; i < pv.Contacts.VNo(); i++ {
		vAssert("contact-dereferencable", fromFieldsOK(&pv.Contacts.Vals[i], n))
	}
	for i := 0; i < pv.PAIs.VNo(); i++ {
		vAssert("pai-dereferencable", fromFieldsOK(&pv.PAIs.Vals[i], n))
	}
	vAssert("lastval-dereferencable", fieldOK(pv.Contacts.LastHVal, n) && fieldOK(pv.PAIs.LastHVal, n))
	vAssert("body-dereferencable", fieldOK(m.Body, n))
	// the signature of whatever was parsed does not crash either
	if e == 0 {
		s, _ := GetMsgSig(&m)
		_ = s.String()
	}
	vReach("end")
}

// H_C04_lookup: lookups on every name including the empty one; error and
// enum stringers total.
func H_C04_lookup(n int) {
	name := vBytes(n)
	t := GetHdrType(name)
	m := GetMethodNo(name)
	vAssert("lookup-results-in-range", t >= HdrFrom && t <= HdrOther && m >= MRegister && m <= MOther)
	r := URIParamResolve(name)
	vAssert("param-resolve-single-flag", r != 0 && r&(r-1) == 0)
	v, ok := hexToU(name)
	_, _ = v, ok
	hexToI(name)
	vReach("end")
}

func H_C04_enums() {
	e := ErrorHdr(vU8())
	if e <= ErrHdrTooManyVals {
		s := e.Error()
		vAssert("error-text", len(s) > 0)
	}
	c := e.ErrorConv()
	vAssert("error-conv-nil-only-for-ok", (c == nil) == (e == 0))
	u := ErrorURI(vU8())
	if u <= ErrURIBug {
		vAssert("uri-error-text", len(u.Error()) > 0)
	}
	sc := URIScheme(int8(vU8()))
	vAssert("scheme-text", len(sc.String()) > 0)
	vReach("end")
}

// H_C04_uri: compare / parse / relocate entry points on arbitrary bytes.
func H_C04_uri(n1, n2 int) {
	b1 := vBytes(n1)
	b2 := vBytes(n2)
	f := URICmpFlags(vU8())
	var r1, r2 PsipURI
	URIParseCmp(b1, b2, f, &r1, &r2)
	URIRawCmp(b1, b2, f)
	URIParamsEq(b1, 0, b2, 0)
	URIHdrsEq(b1, 0, b2, 0)
	var u PsipURI
	e, o := ParseURI(b1, &u)
	vAssert("uri-offset-inside", o >= 0 && o <= n1)
	vAssert("uri-fields-dereferencable", fieldOK(u.Scheme, n1) && fieldOK(u.User, n1) && fieldOK(u.Pass, n1) && fieldOK(u.Host, n1) && fieldOK(u.Port, n1) && fieldOK(u.Params, n1) && fieldOK(u.Headers, n1))
	if e == NoURIErr {
		u.Flat(b1)
		u.Short()
		no, nl := vU16(), vU16()
		vAssume(int(no)+int(nl) <= 65535) // a span inside the 65535-byte addressing limit
		np := PField{Offs: OffsT(no), Len: OffsT(nl)}
		u.AdjustOffs(np)
		u.Truncate()
	}
	vReach("end")
}

// H_C04_ip: the address detectors with every destination size.
func H_C04_ip(n, dl int) {
	buf := vBytes(n)
	var d [20]byte
	var dst []byte
	if dl >= 0 {
		dst = d[:dl]
	}
	_, o4, _ := IP4Prefix(buf, dst)
	_, o6, _ := IP6Prefix(buf, dst)
	vAssert("ip-offsets-inside", o4 >= 0 && o4 <= n && o6 >= 0 && o6 <= n)
	f4, a4, l4 := ContainsIP4(buf, dst)
	f6, a6, l6 := ContainsIP6(buf, dst)
	if f4 {
		vAssert("ip4-span-inside", a4 >= 0 && l4 > 0 && a4+l4 <= n)
	}
	if f6 {
		vAssert("ip6-span-inside", a6 >= 0 && l6 > 0 && a6+l6 <= n)
	}
	vReach("end")
}

// H_C04_sig: signature helpers on arbitrary strings.
func H_C04_sig(n int) {
	s := vBytes(n)
	GetCallIDSig(s)
	GetViaBrSig(s)
	var h Hdr
	h.Type = HdrT(vU16())
	h.Name.Len = OffsT(vU8())
	id, e := GetHdrSigId(h)
	vAssert("sig-id-or-error", e != ErrHdrOk || id&^HdrSigIdCMask < 8)
	vReach("end")
}
