//go:build verif

package sipsp

// C10: numeric values are exact or rejected, never silently wrapped.

const refU32Max = 1<<32 - 1

// H_C10_cseq: "D{d} M\r\nX": accepted => CSeqNo == decimal value and the
// value fits 32 bits and 10 digits; does not fit => rejected.
func H_C10_cseq(d int) {
	dig := vBytes(d)
	vAssume(vAllDigits(dig))
	buf := append(append([]byte(nil), dig...), ' ', 'M', '\r', '\n', 'X')
	var cs PCSeqBody
	_, e := ParseCSeqVal(buf, 0, &cs)
	ref, sat := refDec(dig, refU32Max)
	vObs("e", int(e))
	if e == 0 {
		vAssert("accepted-fits", !sat)
		vAssert("accepted-exact", uint64(cs.CSeqNo) == ref)
		vAssert("points-to-digits", cs.CSeq.Offs == 0 && int(cs.CSeq.Len) == d)
		vReach("accepted")
	} else {
		vAssert("rejected-only-if-too-big", vOr(sat, d > 10))
		vReach("rejected")
	}
	vReach("end")
}

// H_C10_uint: kind 0 = Expires/generic (32 bit), 1 = Content-Length (2^24, 9 digits)
func H_C10_uint(kind, d int) {
	dig := vBytes(d)
	vAssume(vAllDigits(dig))
	buf := append(append([]byte(nil), dig...), '\r', '\n', 'X')
	var u PUIntBody
	var e ErrorHdr
	lim := uint64(refU32Max)
	if kind == 1 {
		_, e = ParseCLenVal(buf, 0, &u)
		lim = 1 << 24
	} else {
		_, e = ParseExpiresVal(buf, 0, &u)
	}
	ref, sat := refDec(dig, lim)
	vObs("e", int(e))
	if e == 0 {
		vAssert("accepted-fits", !sat)
		vAssert("accepted-exact", uint64(u.UIVal) == ref)
		vAssert("points-to-digits", u.SVal.Offs == 0 && int(u.SVal.Len) == d)
		if kind == 1 {
			vAssert("clen-9-digits", d <= 9)
		}
		vReach("accepted")
	} else {
		if kind == 1 {
			vAssert("rejected-only-if-too-big", vOr(sat, d > 9))
		} else {
			vAssert("rejected-only-if-too-big", sat)
		}
		vReach("rejected")
	}
	vReach("end")
}

// H_C10_status: reply status = the three digits.
func H_C10_status() {
	dig := vBytes(3)
	vAssume(vAllDigits(dig))
	buf := append(append([]byte("SIP/2.0 "), dig...), ' ', 'r', '\r', '\n', 'X')
	var fl PFLine
	_, e := ParseFLine(buf, 0, &fl)
	ref, _ := refDec(dig, 999)
	vAssert("accepted", e == 0)
	vAssert("status-exact", uint64(fl.Status) == ref)
	vAssert("points-to-digits", fl.StatusCode.Offs == 8 && fl.StatusCode.Len == 3)
	vReach("end")
}

// H_C10_cexp: Contact expires parameter saturates at 2^32-1.
func H_C10_cexp(d int) {
	dig := vBytes(d)
	vAssume(vAllDigits(dig))
	buf := append(append([]byte("<a>;expires="), dig...), '\r', '\n', 'X')
	var pf PFromBody
	_, e := ParseOneContact(buf, 0, &pf)
	ref, sat := refDec(dig, refU32Max)
	vAssert("accepted", e == 0)
	vAssert("has-expires", pf.HasExpires)
	vAssert("expires-exact-or-saturated", vOr(vAnd(sat, pf.Expires == refU32Max), vAnd(!sat, uint64(pf.Expires) == ref)))
	vReach("end")
}

// H_C10_q: q = D.DDD shapes (shape: 0 "D", 1 "D.", 2 "D.D", 3 "D.DD", 4 "D.DDD", 5 "D.DDDD")
func H_C10_q(shape int) {
	nd := shape
	if shape > 0 {
		nd = shape - 1
	}
	u := vByte()
	frac := vBytes(nd)
	vAssume(vAnd(u >= '0' && u <= '9', vAllDigits(frac)))
	buf := append([]byte("<a>;q="), u)
	if shape > 0 {
		buf = append(buf, '.')
		buf = append(buf, frac...)
	}
	buf = append(buf, '\r', '\n', 'X')
	var pf PFromBody
	_, e := ParseOneContact(buf, 0, &pf)
	vAssert("accepted", e == 0)
	fv, _ := refDec(frac, 9999)
	scale := 1
	for i := nd; i < 3; i++ {
		scale *= 10
	}
	inRange := vAnd(nd <= 3, vOr(u == '0', vAnd(u == '1', fv == 0)))
	want := uint64(u-'0')*1000 + fv*uint64(scale)
	if nd > 3 {
		want = 0
	}
	vAssert("q-exact-when-valid", vOr(!inRange, uint64(pf.Q) == want))
	vAssert("q-flagged-when-invalid", vOr(inRange, vAnd(pf.Q == 0, pf.ParamErr != 0)))
	vReach("end")
}

// H_C10_port: carrier 0 "sip:h:D", 1 "sip:h:D;p", 2 "sip:h:D?h", 3 "sip:u@h:D",
// 4 "sip:u:PP@h:D" (PP = two symbolic password bytes, digits included), 5 "sip:u;x:P@h:D",
// 6 "sip:u@h:D;p", 7 "sip:u@h:D?x", 8 "sip:[::1]:D;p"
func H_C10_port(carrier, d int) {
	dig := vBytes(d)
	vAssume(vAllDigits(dig))
	var buf []byte
	if carrier == 3 || carrier == 6 || carrier == 7 {
		buf = append([]byte("sip:u@h:"), dig...)
	} else if carrier == 8 {
		buf = append([]byte("sip:[::1]:"), dig...)
	} else if carrier == 4 || carrier == 5 {
		pw := vBytes(2)
		vAssume(vAnd(isAlnum(pw[0]), isAlnum(pw[1])))
		if carrier == 4 {
			buf = append([]byte("sip:u:"), pw...)
		} else {
			buf = append([]byte("sip:u;x:"), pw...)
		}
		buf = append(buf, "@h:"...)
		buf = append(buf, dig...)
	} else {
		buf = append([]byte("sip:h:"), dig...)
	}
	if carrier == 1 || carrier == 6 || carrier == 8 {
		buf = append(buf, ';', 'p')
	} else if carrier == 2 || carrier == 7 {
		buf = append(buf, '?', 'h')
	}
	var u PsipURI
	e, _ := ParseURI(buf, &u)
	ref, sat := refDec(dig, 65535)
	vObs("e", int(e))
	if e == 0 {
		vAssert("accepted-fits", !sat)
		vAssert("accepted-exact", uint64(u.PortNo) == ref)
		vAssert("points-to-digits", int(u.Port.Len) == d)
		vReach("accepted")
	} else {
		vAssert("rejected-only-if-too-big", sat)
		vAssert("rejected-as-port-error", e == ErrURIPort)
		vReach("rejected")
	}
	vReach("end")
}

// H_C10_hdr: the numeric headers inside a header line (ParseHdrLine with
// header-specific value parsing), delivered in two pieces with every cut:
// kind 0 = Expires, 1 = Content-Length, 2 = CSeq number.
func H_C10_hdr(kind, d int) {
	dig := vBytes(d)
	vAssume(vAllDigits(dig))
	name := "Expires:"
	lim := uint64(refU32Max)
	switch kind {
	case 1:
		name = "Content-Length: "
		lim = 1 << 24
	case 2:
		name = "CSeq:"
	}
	buf := append([]byte(name), dig...)
	if kind == 2 {
		buf = append(buf, ' ', 'A')
	}
	buf = append(buf, '\r', '\n', 'X')
	var h Hdr
	var pv PHdrVals
	c := 1 + vChoice(len(buf)-1)
	o, e := ParseHdrLine(buf[:c], 0, &h, &pv)
	if e == ErrHdrMoreBytes {
		o, e = ParseHdrLine(buf, o, &h, &pv)
		vReach("resumed")
	}
	ref, sat := refDec(dig, lim)
	if kind == 1 {
		sat = vOr(sat, d > 9)
	} else if kind == 2 {
		sat = vOr(sat, d > 10) // CSeq numbers of more than 10 digits may be rejected
	}
	vObs("o", o)
	vObs("e", int(e))
	if e == 0 {
		vAssert("accepted-fits", !sat)
		var got uint64
		switch kind {
		case 0:
			got = uint64(pv.Expires.UIVal)
		case 1:
			got = uint64(pv.CLen.UIVal)
		case 2:
			got = uint64(pv.CSeq.CSeqNo)
		}
		vAssert("accepted-exact", got == ref)
		vReach("accepted")
	} else {
		vAssert("rejected-only-if-too-big", sat)
		vAssert("rejection-is-definitive", e != ErrHdrMoreBytes)
		vReach("rejected")
	}
	vReach("end")
}

// H_C10_cexp_tok: the Contact expires / q value is an arbitrary token (letters
// and digits): a number is reported only for a digit string, and then it is
// that string's decimal value.
func H_C10_cexp_tok(which, d int) {
	val := vBytes(d)
	for i := range val {
		vAssume(isAlnum(val[i]))
	}
	name := "expires"
	if which == 1 {
		name = "q"
	}
	buf := append([]byte("<a>;"+name+"="), val...)
	buf = append(buf, '\r', '\n', 'X')
	var pf PFromBody
	_, e := ParseOneContact(buf, 0, &pf)
	vAssert("accepted", e == 0)
	alld := vAllDigits(val)
	if which == 0 {
		ref, sat := refDec(val, refU32Max)
		vAssert("expires-only-for-digit-strings", vOr(!pf.HasExpires, alld))
		vAssert("expires-reported-for-digit-strings", vOr(!alld, pf.HasExpires))
		vAssert("expires-exact", vOr(!alld, vOr(vAnd(sat, pf.Expires == refU32Max), vAnd(!sat, uint64(pf.Expires) == ref))))
		vAssert("non-number-flagged", vOr(alld, vAnd(pf.Expires == 0, pf.ParamErr != 0)))
	} else {
		vAssert("q-only-for-digit-strings", vOr(alld, pf.Q == 0))
	}
	vReach("end")
}

// H_C10_qint: q with an integer part of d digits (leading zeros, huge values)
// and one decimal: valid only for 0.D and 1.0; anything else leaves Q unset
// and flags the parameter.
func H_C10_qint(d int) {
	ip := vBytes(d)
	f := vByte()
	vAssume(vAnd(vAllDigits(ip), f >= '0' && f <= '9'))
	buf := append([]byte("<a>;q="), ip...)
	buf = append(buf, '.', f)
	buf = append(buf, '\r', '\n', 'X')
	var pf PFromBody
	_, e := ParseOneContact(buf, 0, &pf)
	vAssert("accepted", e == 0)
	u, sat := refDec(ip, 1)
	valid := vAnd(!sat, vOr(u == 0, f == '0'))
	want := u*1000 + uint64(f-'0')*100
	vAssert("q-exact-when-valid", vOr(!valid, uint64(pf.Q) == want))
	vAssert("q-flagged-when-invalid", vOr(valid, vAnd(pf.Q == 0, pf.ParamErr != 0)))
	vReach("end")
}
