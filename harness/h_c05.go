//go:build verif

package sipsp

// C05: reported fields are contained, nested and ordered like the text.

func pfIn(a PField, lo, hi int) bool {
	return a.Len == 0 || (int(a.Offs) >= lo && pfEnd(a) <= hi)
}

func pfSub(a, b PField) bool {
	return a.Len == 0 || (b.Len > 0 && int(a.Offs) >= int(b.Offs) && pfEnd(a) <= pfEnd(b))
}

func notLWSByte(c byte) bool { return c != ' ' && c != '\t' && c != '\r' && c != '\n' }

func fromNest(tag string, f *PFromBody, hv PField) {
	if !f.Parsed() {
		return
	}
	vAssert(tag+"-V-in-header-value", pfSub(f.V, hv))
	vAssert(tag+"-name-uri-params-in-V", pfSub(f.Name, f.V) && pfSub(f.URI, f.V) && pfSub(f.Params, f.V))
	vAssert(tag+"-tag-in-params", pfSub(f.Tag, f.Params))
	if f.Name.Len > 0 && f.URI.Len > 0 {
		vAssert(tag+"-name-before-uri", pfEnd(f.Name) <= int(f.URI.Offs))
	}
	if f.Params.Len > 0 && f.URI.Len > 0 {
		vAssert(tag+"-uri-before-params", pfEnd(f.URI) <= int(f.Params.Offs))
	}
}

// checkLayout asserts the C05 layout facts on a successfully parsed message.
func checkLayout(buf []byte, m *PSIPMsg, start, ret int) {
	fl := &m.FL
	vAssert("fline-fields-inside", pfIn(fl.Method, start, ret) && pfIn(fl.URI, start, ret) && pfIn(fl.Version, start, ret) && pfIn(fl.StatusCode, start, ret) && pfIn(fl.Reason, start, ret))
	flEnd := 0
	if fl.Request() {
		vAssert("request-order", pfEnd(fl.Method) < int(fl.URI.Offs) && pfEnd(fl.URI) < int(fl.Version.Offs))
		flEnd = pfEnd(fl.Version)
	} else {
		vAssert("reply-order", pfEnd(fl.Version) < int(fl.StatusCode.Offs) && pfEnd(fl.StatusCode) < int(fl.Reason.Offs)+1)
		flEnd = int(fl.Reason.Offs) + int(fl.Reason.Len)
	}
	hl := &m.HL
	nst := hl.N
	if nst > len(hl.Hdrs) {
		nst = len(hl.Hdrs)
	}
	prevEnd := flEnd
	for i := 0; i < nst; i++ {
		h := &hl.Hdrs[i]
		lineEnd := int(m.Body.Offs)
		if i+1 < nst {
			lineEnd = int(hl.Hdrs[i+1].Name.Offs)
		}
		vAssert("header-after-previous", int(h.Name.Offs) > prevEnd && h.Name.Len > 0)
		vAssert("header-name-in-own-line", pfEnd(h.Name) < lineEnd)
		if h.Val.Len > 0 {
			vAssert("header-value-after-name", int(h.Val.Offs) > pfEnd(h.Name))
			vAssert("header-value-in-own-line", pfEnd(h.Val) < lineEnd)
			if int(h.Val.Offs) < len(buf) && pfEnd(h.Val) <= len(buf) && pfEnd(h.Val) > 0 {
				vAssert("header-value-trimmed", vAnd(notLWSByte(buf[h.Val.Offs]), notLWSByte(buf[pfEnd(h.Val)-1])))
			}
			if pfEnd(h.Val) > prevEnd {
				prevEnd = pfEnd(h.Val)
			}
		}
		if pfEnd(h.Name) > prevEnd {
			prevEnd = pfEnd(h.Name)
		}
	}
	if nst > 0 {
		vAssert("first-line-before-headers", flEnd < int(hl.Hdrs[0].Name.Offs))
	}
	pv := &m.PV
	fromNest("from", &pv.From, hl.GetHdr(HdrFrom).Val)
	fromNest("to", &pv.To, hl.GetHdr(HdrTo).Val)
	if pv.CSeq.Parsed() {
		cv := hl.GetHdr(HdrCSeq).Val
		vAssert("cseq-V-in-header-value", pfSub(pv.CSeq.V, cv))
		vAssert("cseq-no-method-in-V", pfSub(pv.CSeq.CSeq, pv.CSeq.V) && pfSub(pv.CSeq.Method, pv.CSeq.V) && pfEnd(pv.CSeq.CSeq) < int(pv.CSeq.Method.Offs))
	}
	if pv.Callid.Parsed() {
		vAssert("callid-in-header-value", pfSub(pv.Callid.CallID, hl.GetHdr(HdrCallID).Val))
	}
	for i := 0; i < pv.Contacts.VNo(); i++ {
		c := &pv.Contacts.Vals[i]
		vAssert("contact-value-inside", pfIn(c.V, flEnd, int(m.Body.Offs)))
		vAssert("contact-parts-in-V", pfSub(c.Name, c.V) && pfSub(c.URI, c.V) && pfSub(c.Params, c.V) && pfSub(c.Tag, c.Params))
	}
	// the first and the last value stay readable when they did not fit the
	// caller's array (GetContact(0), GetContact(N-1)): same nesting facts
	for _, c := range []*PFromBody{pv.Contacts.GetContact(0), pv.Contacts.GetContact(pv.Contacts.N - 1)} {
		if c != nil {
			vAssert("contact-value-inside", pfIn(c.V, flEnd, int(m.Body.Offs)))
			vAssert("contact-parts-in-V", pfSub(c.Name, c.V) && pfSub(c.URI, c.V) && pfSub(c.Params, c.V) && pfSub(c.Tag, c.Params))
		}
	}
	for i := 0; i < pv.PAIs.VNo(); i++ {
		c := &pv.PAIs.Vals[i]
		vAssert("pai-value-inside", pfIn(c.V, flEnd, int(m.Body.Offs)))
		vAssert("pai-parts-in-V", pfSub(c.Name, c.V) && pfSub(c.URI, c.V) && pfSub(c.Params, c.V))
	}
	vAssert("body-ends-at-returned-offset", pfEnd(m.Body) == ret)
	vAssert("body-starts-after-headers", int(m.Body.Offs) > prevEnd && int(m.Body.Offs) <= ret)
	if int(m.Body.Offs) > 0 && int(m.Body.Offs) <= len(buf) {
		c := buf[m.Body.Offs-1]
		vAssert("body-starts-after-blank-line", vOr(c == '\n', c == '\r'))
	}
	vAssert("raw-is-start-to-ret", len(m.RawMsg) == ret-start && len(m.Buf) == ret)
	if ret > start {
		vAssert("raw-points-at-start", &m.RawMsg[0] == &buf[start])
	}
}

func H_C05(t, w, flags int) {
	buf := vTpl(t, w)
	var m PSIPMsg
	m.Init(nil, nil, nil)
	ret, e := ParseSIPMsg(buf, 0, &m, uint8(flags))
	vObs("ret", ret)
	vObs("e", int(e))
	if e != 0 {
		vReach("not-accepted")
		return
	}
	checkLayout(buf, &m, 0, ret)
	vReach("accepted")
}

// H_C05_chunk: the same layout facts on an object that was resumed once at a
// symbolic cut (the statement's "under any chunk schedule": every schedule
// reduces to this by the resumption lemma of C01).
func H_C05_chunk(t, w int) {
	buf := vTpl(t, w)
	var m PSIPMsg
	m.Init(nil, nil, nil)
	cut := 1 + vChoice(len(buf)-1)
	ret, e := ParseSIPMsg(buf[:cut], 0, &m, SIPMsgSkipBodyF)
	if e == ErrHdrMoreBytes {
		ret, e = ParseSIPMsg(buf, ret, &m, SIPMsgSkipBodyF)
	}
	vObs("ret", ret)
	vObs("e", int(e))
	if e != 0 {
		vReach("not-accepted")
		return
	}
	checkLayout(buf[:len(m.Buf)], &m, 0, ret)
	vReach("accepted")
}

// H_C05_at: the message starts at offset k of the buffer, all 8 flag sets
// (symbolic), one-shot or resumed once at a symbolic cut (choice 0 = one-shot;
// a cut is not combined with the no-more-data flag).
func H_C05_at(t, w, k int) {
	text := vTpl(t, w)
	buf := vPad(k, []byte{'\r', '\n'}, text)
	flags := vU8() & 7
	var m PSIPMsg
	m.Init(nil, nil, nil)
	o := k
	if c := vChoice(len(text)); c > 0 && flags&SIPMsgNoMoreDataF == 0 {
		var e ErrorHdr
		o, e = ParseSIPMsg(buf[:k+c], k, &m, flags)
		if e != ErrHdrMoreBytes {
			vReach("early")
			return
		}
	}
	ret, e := ParseSIPMsg(buf, o, &m, flags)
	vObs("ret", ret)
	vObs("e", int(e))
	if e != 0 {
		vReach("not-accepted")
		return
	}
	checkLayout(buf[:len(m.Buf)], &m, k, ret)
	vReach("accepted")
}

// H_C05_cap: the layout facts with caller arrays of (hcap, ccap) entries on a
// message with three Contact headers (the first / last values beyond the
// array are read through GetContact).
func H_C05_cap(t, w, hcap, ccap int) {
	buf := vTpl(t, w)
	var m PSIPMsg
	var hs [8]Hdr
	var cs [4]PFromBody
	m.Init(nil, hs[:hcap], cs[:ccap])
	ret, e := ParseSIPMsg(buf, 0, &m, 0)
	vObs("ret", ret)
	vObs("e", int(e))
	if e != 0 {
		vReach("not-accepted")
		return
	}
	checkLayout(buf, &m, 0, ret)
	vReach("accepted")
}
