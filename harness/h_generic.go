//go:build verif

package sipsp

// Generic entry points: (adapter id, sizes ...). Used by C01, C02, C03, C11,
// C12, C13 job tables.

// vTemplates: concrete skeletons with one symbolic window (3.2 of DESIGN.md).
var vTemplates = [...]struct{ pre, post string }{
	0:  {"", ""},
	1:  {"INVITE sip:a SIP/2.0\r\nFrom:", "\r\n\r\n"},
	2:  {"INVITE sip:a SIP/2.0\r\nTo:", "\r\n\r\n"},
	3:  {"INVITE sip:a SIP/2.0\r\nContact:", "\r\n\r\n"},
	4:  {"INVITE sip:a SIP/2.0\r\nP-Asserted-Identity:", "\r\n\r\n"},
	5:  {"INVITE sip:a SIP/2.0\r\nCSeq:", "\r\n\r\n"},
	6:  {"INVITE sip:a SIP/2.0\r\nCall-ID:", "\r\n\r\n"},
	7:  {"INVITE sip:a SIP/2.0\r\nContent-Length:", "\r\n\r\nabc"},
	8:  {"INVITE sip:a SIP/2.0\r\nExpires:", "\r\n\r\n"},
	9:  {"INVITE sip:a SIP/2.0\r\nX:", "\r\n\r\n"},
	10: {"SIP/2.0 200 OK\r\nCSeq: 1 ", "\r\nl:0\r\n\r\n"},
	11: {"INVITE sip:a SIP/2.0\r\nm:<a>\r\nContact:", "\r\nm:c\r\n\r\n"},
	12: {"INVITE sip:a SIP/2.0\r\nf:", "\r\nt:b\r\ni:c\r\n\r\n"},
	13: {"A B C\r\n", ""},
	14: {"A B C\r\nf:a\r\n", ""},
	15: {"From:", "\r\n\r\n"},
	16: {"Contact:", "\r\nm:b\r\n\r\n"},
	17: {"l:", "\r\n\r\n"},
	18: {"m:<a>;", "\r\n\r\n"},
	19: {"<sip:a>;", "\r\nX"},
	20: {"a=b;", "\r\nX"},
	21: {"INVITE sip:a SIP/2.0\r\nContent-Length:", ""},
	22: {"INVITE sip:a SIP/2.0\r\nl:2\r\n\r\n", ""},
	23: {"", " sip:a SIP/2.0\r\nX"},
	24: {"SIP/2.0 ", "\r\nX"},
	25: {"INVITE ", "\r\nX"},
	26: {"SIP/2.0 200 ", "X"},
	27: {"A B ", "X"},
	// windows at structural boundaries
	28: {"INVITE sip:a SIP/2.0\r\n", ":x\r\n\r\n"},   // symbolic header name
	29: {"INVITE sip:a SIP/2.0\r\nX:a", "b\r\n\r\n"}, // inside a generic value (folds, line ends)
	30: {"INVITE sip:a SIP/2.0", "f:a\r\n\r\n"},      // end of the first line
	31: {"INVITE sip:a SIP/2.0\r\nf:a", ""},          // end of the header block
	32: {"INVITE sip:a SIP/2.0\r\nVia: SIP/2.0/UDP h;branch=z9hG4bKx\r\nm:", "\r\nm:<b>\r\n\r\n"},
	33: {"SIP/2.0 200 OK\r\nf:<a>;tag=", "\r\nt:b\r\n\r\n"},
	34: {"INVITE sip:a SIP/2.0\r\nContact: <a>,", "\r\n\r\n"},
	35: {"INVITE sip:a SIP/2.0\r\nP-Asserted-Identity: <a>,", "\r\n\r\n"},
	36: {"INVITE sip:a SIP/2.0\r\nRoute:", "\r\n\r\n"},
	// numbers at their limits (the window supplies the last digits)
	37: {"INVITE sip:a SIP/2.0\r\nl:1677721", "\r\n\r\n"},
	38: {"INVITE sip:a SIP/2.0\r\nCSeq: 429496729", " A\r\n\r\n"},
	39: {"INVITE sip:a SIP/2.0\r\nExpires:429496729", "\r\n\r\n"},
	40: {"l:1677721", "\r\nX"},
	41: {"CSeq:429496729", " A\r\nX"},
	42: {"Expires: 429496729", "\r\nX"},
	43: {"m:<a>;expires=429496729", "\r\nX"},
	// windows in the interior of header-specific values
	44: {"INVITE sip:a SIP/2.0\r\nContact: \"a", "\" <b>;q=0.5\r\n\r\n"},    // inside a quoted display name
	45: {"INVITE sip:a SIP/2.0\r\nContact: <a>;expires=1", ", <b>\r\n\r\n"}, // after a parameter value
	46: {"INVITE sip:a SIP/2.0\r\nFrom: a <b>;tag=x", ";y=z\r\n\r\n"},       // after the tag value
	47: {"INVITE sip:a SIP/2.0\r\nFrom: <b>;", "=v\r\n\r\n"},                // a parameter name
	48: {"INVITE sip:a SIP/2.0\r\nCSeq: 1", "INVITE\r\n\r\n"},               // between number and method
	49: {"INVITE sip:a SIP/2.0\r\nTo: \"x\" <", ">;tag=t\r\n\r\n"},          // the URI inside <>
	50: {"", " sip:a SIP/2.0\r\nf:a\r\n\r\n"},                               // the method
	51: {"SIP/2.0 ", " OK\r\nf:a\r\n\r\n"},                                  // the status code
	52: {"INVITE sip:a SIP/2.0\r\nP-Asserted-Identity: \"a\" <b>", "<c>\r\n\r\n"},
	53: {"INVITE sip:a SIP/2.0\r\nm:<a>;q=", ";expires=5\r\n\r\n"}, // q value
	54: {"INVITE sip:a SIP/2.0\r\nCall-ID:", "\r\nm: *\r\n\r\n"},
	55: {"REGISTER sip:a SIP/2.0\r\nm:*", "\r\nExpires: 0\r\n\r\n"}, // after the star contact
	56: {"SIP/2.0 200 O", "f:a\r\n\r\n"},                            // end of a reply line
	57: {"SIP/2.0 200 O", "X"},
	// name-addr values (no message around them)
	58: {"\"a", "\" <b>;q=0.5\r\nX"},
	59: {"<a>;expires=1", ", <b>\r\nX"},
	60: {"a <b>;tag=x", ";y=z\r\nX"},
	61: {"<b>;", "=v;lr\r\nX"},
	62: {"\"x\" <", ">;tag=t , <c>\r\nX"},
	63: {"INVITE sip:a SIP/2.0\r\nl:0\r\n\r\n", ""}, // bytes after a complete message
	64: {"a=1;", ";c=3?x"},                          // URI parameter list, window in the middle
	65: {"a=1&", "&c=3\r\nX"},                       // URI header list
	66: {"lr;", "=x;ttl=1?y"},
	67: {"a=\"", "\";b=2\r\nX"}, // inside a quoted parameter value (escapes)
	68: {"a=\"x", "y\"&b\r\nX"},
	69: {"", "/2.0 200 OK\r\nf:a\r\n\r\n"}, // the version token of a reply (any letter case)
	70: {"", "/2.0 200 OK\r\nX"},
	71: {"INVITE sip:a SIP/2.0\r\nm:<a>;expires=6\r\nContact: \"B\" <b>;tag=z", "\r\nm:<c>\r\nl:0\r\n\r\n"}, // three Contact headers
	72: {"INVITE sip:a SIP/2.0\r\nm:<a>;lr", ", <b>\r\nl:0\r\n\r\n"},                                        // between a valueless parameter and the comma
	// header blocks (no first line) for the stand-alone ParseHeaders objects
	73: {"P-Asserted-Identity:", "\r\nX:b\r\n\r\n"},
	74: {"i:a\r\nP-Asserted-Identity: \"a", "\" <b>\r\n\r\n"}, // inside the quoted name of the first PAI value
	75: {"t:", "\r\nf:<a>\r\n\r\n"},
}

// vTpl builds template t with a window of w symbolic bytes.
func vTpl(t, w int) []byte {
	b := []byte(vTemplates[t].pre)
	b = append(b, vBytes(w)...)
	b = append(b, vTemplates[t].post...)
	return b
}

// H_resume: resumption lemma, adapter id, template t (0 = fully symbolic),
// w symbolic bytes, cut i (absolute index; <0: every cut, chosen symbolically).
func H_resume(id, t, w, i int) {
	vResume2(vParserByID(id), vTpl(t, w), 0, i)
}

// H_resume_at: as H_resume but parsing starts at offset start (fully symbolic).
func H_resume_at(id, n, start int) {
	vResume2(vParserByID(id), vBytes(n), start, -1)
}

func H_chain(id, t, w int) {
	vChain(vParserByID(id), vTpl(t, w), 0)
}

// H_chainw: all schedules whose cuts lie in or after the symbolic window.
func H_chainw(id, t, w int) {
	vChainFrom(vParserByID(id), vTpl(t, w), 0, len(vTemplates[t].pre))
}

// H_chain_at: every chunk schedule of a template placed at offset k (two
// symbolic bytes in front of it).
func H_chain_at(id, t, w, k int) {
	junk := vBytes(2)
	vChain(vParserByID(id), vPad(k, junk, vTpl(t, w)), k)
}

func H_premature(id, t, w int) {
	vPremature(vParserByID(id), vTpl(t, w), 0)
}

// H_premature_at: every prefix of a template placed at offset k.
func H_premature_at(id, t, w, k int) {
	junk := vBytes(2)
	vPrematureAll(vParserByID(id), vPad(k, junk, vTpl(t, w)), k, k+1)
}

func H_offset(id, t, w, k int) {
	vOffset(vParserByID(id), vTpl(t, w), k)
}

func H_reset(id, ta, wa, tb, wb int) {
	a := vTpl(ta, wa)
	b := vTpl(tb, wb)
	vResetLike(vParserByID(id), a, b)
}

// H_single: one fresh parse (engine calibration; implicit run-time checks only).
func H_single(id, t, w int) {
	p := vParserByID(id)
	buf := vTpl(t, w)
	o, e := p.parse(0, buf, 0)
	vObs("o", o)
	vObs("e", int(e))
	vAssert("ret-in-range", o >= 0 && o <= len(buf))
	vReach("end")
}
