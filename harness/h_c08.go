//go:build verif

package sipsp

// C08: first line decomposed exactly.

func isTokCh(c byte) bool { return c != ' ' && c != '\t' && c != '\r' && c != '\n' }

// refFLine: shape 2 = reply, 1 = request, 0 = malformed, -1 = possibly an
// incomplete prefix of a well-formed line (no claim on the verdict then).
// The line must be followed by its terminator and (for CR) one look-ahead byte.
func refFLine(buf []byte) (shape int, f [6]int, end int) {
	n := len(buf)
	// reply: "SIP/2.0 " in any case, 3 digits, SP, reason up to CR/LF
	if n >= 8 && refEqFoldB(buf[:8], "sip/2.0 ") {
		if n < 14 {
			return -1, f, 0
		}
		if !(isDig(buf[8]) && isDig(buf[9]) && isDig(buf[10]) && buf[11] == ' ') {
			return 0, f, 0
		}
		p := 12
		for p < n && buf[p] != '\r' && buf[p] != '\n' {
			p++
		}
		if p >= n {
			return -1, f, 0
		}
		e := p + 1
		if buf[p] == '\r' {
			if p+1 >= n {
				return -1, f, 0
			}
			if buf[p+1] == '\n' {
				e = p + 2
			}
		} else if p+1 >= n {
			return -1, f, 0
		}
		f = [6]int{0, 7, 8, 11, 12, p}
		return 2, f, e
	}
	if n < 14 {
		return -1, f, 0
	}
	// request: three non-empty tokens separated by single SP, then terminator
	p := 0
	var st, en [3]int
	for k := 0; k < 3; k++ {
		st[k] = p
		for p < n && isTokCh(buf[p]) {
			p++
		}
		en[k] = p
		if p >= n {
			return -1, f, 0
		}
		if en[k] == st[k] {
			return 0, f, 0
		}
		if k < 2 {
			if buf[p] != ' ' {
				return 0, f, 0
			}
			p++
		}
	}
	if buf[p] != '\r' && buf[p] != '\n' {
		return 0, f, 0
	}
	e := p + 1
	if p+1 >= n {
		return -1, f, 0
	}
	if buf[p] == '\r' && buf[p+1] == '\n' {
		e = p + 2
	}
	f = [6]int{st[0], en[0], st[1], en[1], st[2], en[2]}
	return 1, f, e
}

// refEqFoldB: branching variant (forks) of the case-insensitive compare.
func refEqFoldB(b []byte, lit string) bool {
	for i := 0; i < len(lit); i++ {
		if refLower(b[i]) != lit[i] {
			return false
		}
	}
	return true
}

func pfIs(f PField, s, e int) bool { return int(f.Offs) == s && int(f.Len) == e-s }

func H_C08(t, w int) {
	buf := vTpl(t, w)
	var fl PFLine
	o, e := ParseFLine(buf, 0, &fl)
	shape, f, end := refFLine(buf)
	vObs("o", o)
	vObs("e", int(e))
	vObs("shape", shape)
	switch shape {
	case 2:
		vAssert("reply-accepted", e == 0 && o == end)
		if e == 0 {
			vAssert("reply-fields", pfIs(fl.Version, f[0], f[1]) && pfIs(fl.StatusCode, f[2], f[3]) && pfIs(fl.Reason, f[4], f[5]) && fl.Method.Len == 0 && fl.URI.Len == 0)
			st := int(buf[8]-'0')*100 + int(buf[9]-'0')*10 + int(buf[10]-'0')
			vAssert("reply-status", int(fl.Status) == st)
			vAssert("reply-is-reply", !fl.Request())
		}
		vReach("reply")
	case 1:
		vAssert("request-accepted", e == 0 && o == end)
		if e == 0 {
			vAssert("request-fields", pfIs(fl.Method, f[0], f[1]) && pfIs(fl.URI, f[2], f[3]) && pfIs(fl.Version, f[4], f[5]) && fl.StatusCode.Len == 0)
			vAssert("request-is-request", fl.Request() && fl.Status == 0)
			vAssert("request-method-no", int(fl.MethodNo) == refMethod(buf[f[0]:f[1]]))
		}
		vReach("request")
	case 0:
		vAssert("malformed-not-accepted", e != 0)
		vReach("malformed")
	default:
		vReach("incomplete")
	}
	vReach("end")
}

// H_C08_at: the same decomposition for a first line that starts at offset k
// and arrives in two pieces (every cut, chosen symbolically).
func H_C08_at(t, w, k int) {
	line := vTpl(t, w)
	junk := vBytes(2)
	buf := vPad(k, junk, line)
	var fl PFLine
	c := 1 + vChoice(len(line)-1)
	o, e := ParseFLine(buf[:k+c], k, &fl)
	vObs("o1", o)
	vObs("e1", int(e))
	if e != ErrHdrMoreBytes {
		vReach("early")
		return
	}
	o, e = ParseFLine(buf, o, &fl)
	shape, f, end := refFLine(line)
	vObs("o", o)
	vObs("e", int(e))
	vObs("shape", shape)
	switch shape {
	case 2:
		vAssert("reply-accepted", e == 0 && o == k+end)
		if e == 0 {
			vAssert("reply-fields", pfIs(fl.Version, k+f[0], k+f[1]) && pfIs(fl.StatusCode, k+f[2], k+f[3]) && pfIs(fl.Reason, k+f[4], k+f[5]) && fl.Method.Len == 0 && fl.URI.Len == 0)
			st := int(line[8]-'0')*100 + int(line[9]-'0')*10 + int(line[10]-'0')
			vAssert("reply-status", int(fl.Status) == st)
			vAssert("reply-is-reply", !fl.Request())
		}
		vReach("reply")
	case 1:
		vAssert("request-accepted", e == 0 && o == k+end)
		if e == 0 {
			vAssert("request-fields", pfIs(fl.Method, k+f[0], k+f[1]) && pfIs(fl.URI, k+f[2], k+f[3]) && pfIs(fl.Version, k+f[4], k+f[5]) && fl.StatusCode.Len == 0)
			vAssert("request-is-request", fl.Request() && fl.Status == 0)
			vAssert("request-method-no", int(fl.MethodNo) == refMethod(line[f[0]:f[1]]))
		}
		vReach("request")
	case 0:
		vAssert("malformed-not-accepted", e != 0)
		vReach("malformed")
	default:
		vReach("incomplete")
	}
	vReach("end")
}
