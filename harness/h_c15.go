//go:build verif

package sipsp

// C15: URI comparison obeys the laws of an equivalence check.

const c15flags = POptInputEndF

// uriListsOK: the statement's precondition, decided with the library's own
// list parsers: parameter and header lists parse and have no duplicate names.
func uriListsOK(buf []byte, u *PsipURI) bool {
	var pl URIParamsLst
	var pb [6]URIParam
	pl.Init(pb[:])
	ps := u.Params.Get(buf)
	_, _, e := ParseAllURIParams(ps, 0, &pl, POptTokURIParamF|POptInputEndF)
	if e != ErrHdrOk && e != ErrHdrEOH {
		return false
	}
	if pl.N > len(pb) {
		return false
	}
	for i := 0; i < pl.N; i++ {
		for j := i + 1; j < pl.N; j++ {
			if pl.Params[i].T == pl.Params[j].T && pl.Params[i].T != URIParamOtherF {
				return false
			}
			if bytescaseEq(pl.Params[i].Param.Name.Get(ps), pl.Params[j].Param.Name.Get(ps)) {
				return false
			}
		}
	}
	var hlst URIHdrsLst
	var hb [6]URIHdr
	hlst.Init(hb[:])
	hs := u.Headers.Get(buf)
	_, _, e = ParseAllURIHdrs(hs, 0, &hlst, POptTokURIHdrF|POptInputEndF)
	if e != ErrHdrOk && e != ErrHdrEOH {
		return false
	}
	if hlst.N > len(hb) {
		return false
	}
	for i := 0; i < hlst.N; i++ {
		for j := i + 1; j < hlst.N; j++ {
			if bytescaseEq(hlst.Hdrs[i].Name.Get(hs), hlst.Hdrs[j].Name.Get(hs)) {
				return false
			}
		}
	}
	return true
}

// bytescaseEq: case-insensitive equality (branching reference).
func bytescaseEq(a, b []byte) bool {
	if len(a) != len(b) {
		return false
	}
	for i := range a {
		if refLower(a[i]) != refLower(b[i]) {
			return false
		}
	}
	return true
}

func H_C15_reflexive(n int) {
	buf := vURIBuf(0, n)
	var u PsipURI
	e, _ := ParseURI(buf, &u)
	if e != NoURIErr || !uriListsOK(buf, &u) {
		vReach("skipped")
		return
	}
	f := URICmpFlags(vU8() & 63)
	vAssert("reflexive", URICmp(&u, buf, &u, buf, f))
	vReach("end")
}

func H_C15_symmetric(n1, n2 int) {
	b1 := vURIBuf(0, n1)
	b2 := vURIBuf(0, n2)
	var u1, u2 PsipURI
	e1, _ := ParseURI(b1, &u1)
	e2, _ := ParseURI(b2, &u2)
	if e1 != NoURIErr || e2 != NoURIErr || !uriListsOK(b1, &u1) || !uriListsOK(b2, &u2) {
		vReach("skipped")
		return
	}
	f := URICmpFlags(vU8() & 63)
	g := URICmpFlags(vU8() & 63)
	r12 := URICmp(&u1, b1, &u2, b2, f)
	r21 := URICmp(&u2, b2, &u1, b1, f)
	vAssert("symmetric", r12 == r21)
	if r12 {
		vAssert("skip-flags-monotonic", URICmp(&u1, b1, &u2, b2, f|g))
	}
	vReach("end")
}

// H_C15_entry: raw-string / parse-and-compare entry points agree with parsing
// each URI separately, including the parsed URIs they hand back.
func H_C15_entry(n1, n2 int) { c15entry(n1, n2, false) }

// H_C15_entry_reuse: the same with hand-back structures that still hold the
// URIs of an earlier comparison (every component present).
func H_C15_entry_reuse(n1, n2 int) { c15entry(n1, n2, true) }

func c15entry(n1, n2 int, reuse bool) {
	b1 := vURIBuf(0, n1)
	b2 := vURIBuf(0, n2)
	var u1, u2, r1, r2 PsipURI
	if reuse {
		URIParseCmp([]byte("sips:alice:pw@h.example:5070;a=b;lr?x=y"), []byte("sip:bob:q@[::1]:99;ttl=1?h=v"), 0, &r1, &r2)
	}
	e1, _ := ParseURI(b1, &u1)
	e2, _ := ParseURI(b2, &u2)
	f := URICmpFlags(vU8() & 63)
	ok, err, idx := URIParseCmp(b1, b2, f, &r1, &r2)
	ok2, err2, idx2 := URIRawCmp(b1, b2, f)
	vAssert("raw-agrees-with-parsecmp", ok == ok2 && err == err2 && idx == idx2)
	if e1 != NoURIErr {
		vAssert("first-error-reported", !ok && err == e1 && idx == 0)
		vReach("e1")
		return
	}
	vAssert("first-uri-handed-back", r1 == u1)
	if e2 != NoURIErr {
		vAssert("second-error-reported", !ok && err == e2 && idx == 1)
		vReach("e2")
		return
	}
	vAssert("second-uri-handed-back", r2 == u2)
	vAssert("result-agrees", ok == URICmp(&u1, b1, &u2, b2, f) && err == NoURIErr)
	vReach("end")
}

// H_C15_case: u2 is u1 with the letter case of every byte of scheme and
// host flipped on a symbolic selection: equal. User part compared exactly.
func H_C15_case(nu, nh int) { c15case(nu, nh, false) }

// H_C15_case6: the host is an IPv6 reference "[" hex digits / ':' "]" with a port.
func H_C15_case6(nu, nh int) { c15case(nu, nh, true) }

func c15case(nu, nh int, v6 bool) {
	user := vBytes(nu)
	host := vBytes(nh)
	for i := range user {
		vAssume(isAlnum(user[i]))
	}
	for i := range host {
		if v6 {
			c := host[i]
			vAssume((c >= '0' && c <= '9') || (c >= 'a' && c <= 'f') || (c >= 'A' && c <= 'F') || c == ':')
		} else {
			vAssume(isAlnum(host[i]))
		}
	}
	b1 := append([]byte("sip:"), user...)
	b1 = append(b1, '@')
	if v6 {
		b1 = append(b1, '[')
	}
	b1 = append(b1, host...)
	if v6 {
		b1 = append(b1, "]:5060"...)
	}
	b1 = append(b1, ";Lr;x=Ab?h=V"...)
	b2 := append([]byte("SIP:"), user...)
	b2 = append(b2, '@')
	if v6 {
		b2 = append(b2, '[')
	}
	for i := range host {
		c := host[i]
		if vBool() && ((c >= 'a' && c <= 'z') || (c >= 'A' && c <= 'Z')) {
			c ^= 0x20
		}
		b2 = append(b2, c)
	}
	if v6 {
		b2 = append(b2, "]:5060"...)
	}
	b2 = append(b2, ";X=aB;lR?H=v"...)
	var u1, u2 PsipURI
	e1, _ := ParseURI(b1, &u1)
	e2, _ := ParseURI(b2, &u2)
	vAssert("both-parse", e1 == NoURIErr && e2 == NoURIErr)
	vAssert("case-and-order-insensitive", URICmp(&u1, b1, &u2, b2, 0))
	// user part is case sensitive: flip one letter of the user
	if nu > 0 && ((user[0] >= 'a' && user[0] <= 'z') || (user[0] >= 'A' && user[0] <= 'Z')) {
		b3 := append([]byte(nil), b1...)
		b3[4] ^= 0x20
		var u3 PsipURI
		ParseURI(b3, &u3)
		vAssert("user-case-sensitive", !URICmp(&u1, b1, &u3, b3, 0))
		vAssert("user-skipped-when-asked", URICmp(&u1, b1, &u3, b3, URICmpSkipUser))
	}
	vReach("end")
}

func isAlnum(c byte) bool {
	return (c >= '0' && c <= '9') || (c >= 'a' && c <= 'z') || (c >= 'A' && c <= 'Z')
}

// H_C15_presence: user/ttl/method/maddr parameter present in exactly one URI => different.
func H_C15_presence(which int) {
	names := [...]string{"user", "ttl", "method", "maddr"}
	nm := vBytes(len(names[which]))
	vAssume(refEqFold(nm, names[which]))
	b1 := append([]byte("sip:a@b;"), nm...)
	b1 = append(b1, "=x"...)
	b2 := []byte("sip:a@b")
	var u1, u2 PsipURI
	ParseURI(b1, &u1)
	ParseURI(b2, &u2)
	f := URICmpFlags(vU8()&63) &^ URICmpSkipParams
	vAssert("present-in-one-only-differs", !URICmp(&u1, b1, &u2, b2, f) && !URICmp(&u2, b2, &u1, b1, f))
	vReach("end")
}

// H_C15_order: two URIs with the same two parameters (kind 0: symbolic
// one-letter names; kind 1: transport / lr in any letter case) or headers
// (kind 2) in opposite order and independent symbolic values: the comparison
// is symmetric, and equal exactly when the values agree (ignoring case).
func H_C15_order(kind int) {
	v1, v2, w1, w2 := vBytes(1), vBytes(1), vBytes(1), vBytes(1)
	for _, x := range [][]byte{v1, v2, w1, w2} {
		vAssume(isAlnum(x[0]))
	}
	var n1, n2 []byte
	sep, start := byte(';'), byte(';')
	switch kind {
	case 0:
		n1, n2 = vBytes(1), vBytes(1)
		vAssume(isAlnum(n1[0]) && isAlnum(n2[0]))
		vAssume(refLower(n1[0]) != refLower(n2[0]))
	case 1:
		n1, n2 = vBytes(9), vBytes(2)
		vAssume(refEqFold(n1, "transport"))
		vAssume(refEqFold(n2, "lr"))
	case 2:
		n1, n2 = vBytes(1), vBytes(1)
		vAssume(isAlnum(n1[0]) && isAlnum(n2[0]))
		vAssume(refLower(n1[0]) != refLower(n2[0]))
		sep, start = '&', '?'
	}
	mk := func(a, av, b, bv []byte) []byte {
		u := append([]byte("sip:u@h"), start)
		u = append(u, a...)
		u = append(u, '=')
		u = append(u, av...)
		u = append(u, sep)
		u = append(u, b...)
		u = append(u, '=')
		u = append(u, bv...)
		return u
	}
	b1 := mk(n1, v1, n2, v2)
	b2 := mk(n2, w2, n1, w1)
	var u1, u2 PsipURI
	e1, _ := ParseURI(b1, &u1)
	e2, _ := ParseURI(b2, &u2)
	vAssert("both-parse", e1 == NoURIErr && e2 == NoURIErr)
	r12 := URICmp(&u1, b1, &u2, b2, 0)
	r21 := URICmp(&u2, b2, &u1, b1, 0)
	same := vAnd(refLower(v1[0]) == refLower(w1[0]), refLower(v2[0]) == refLower(w2[0]))
	vAssert("symmetric", r12 == r21)
	vAssert("equal-iff-values-agree", vAnd(r12 == same, r21 == same))
	vReach("end")
}

// H_C15_pass: passwords compare case-sensitively and byte for byte; the
// skip-password flag (and only it, among the single flags) makes two URIs that
// differ in the password alone compare equal.
func H_C15_pass(np int) {
	pw1 := vBytes(np)
	pw2 := vBytes(np)
	for i := range pw1 {
		vAssume(vAnd(isAlnum(pw1[i]), isAlnum(pw2[i])))
	}
	b1 := append(append([]byte("sip:u:"), pw1...), "@h;x=1"...)
	b2 := append(append([]byte("SIP:u:"), pw2...), "@H;X=1"...)
	var u1, u2 PsipURI
	e1, _ := ParseURI(b1, &u1)
	e2, _ := ParseURI(b2, &u2)
	vAssert("both-parse", e1 == NoURIErr && e2 == NoURIErr)
	same := vBytesEq(pw1, pw2)
	f := URICmpFlags(vU8() & 63)
	r := URICmp(&u1, b1, &u2, b2, f)
	vAssert("equal-iff-passwords-equal-or-skipped", r == vOr(same, f&URICmpSkipPass != 0))
	vReach("end")
}

// H_C15_flags: two URIs that differ in exactly one component (which: 0 port,
// 1 scheme, 2 user, 3 password, 4 a parameter value, 5 a header value, 6 host; the
// differing byte is symbolic) compare equal exactly when the skip flag of that
// component is set - for all 64 flag sets.
func H_C15_flags(which int) {
	c := vByte()
	parts := [...]string{"sips", "u", "p", "h", "5", "b", "d"}
	mk := func(p [7]string) []byte {
		return []byte(p[0] + ":" + p[1] + ":" + p[2] + "@" + p[3] + ":" + p[4] + ";a=" + p[5] + "?c=" + p[6])
	}
	b1 := mk(parts)
	b2 := mk(parts)
	// position of the differing byte in b2
	pos := [...]int{len("sips:u:p@h:"), 0, len("sips:"), len("sips:u:"), len("sips:u:p@h:5;a="), len("sips:u:p@h:5;a=b?c="), len("sips:u:p@")}
	if which == 1 {
		b2 = append([]byte("sip"), b2[4:]...)
	} else {
		if which == 0 {
			vAssume(c >= '0' && c <= '9' && c != '5')
		} else {
			vAssume(isAlnum(c) && refLower(c) != b2[pos[which]])
		}
		b2[pos[which]] = c
	}
	var u1, u2 PsipURI
	e1, _ := ParseURI(b1, &u1)
	e2, _ := ParseURI(b2, &u2)
	vAssert("both-parse", e1 == NoURIErr && e2 == NoURIErr)
	f := URICmpFlags(vU8() & 63)
	// which == 6: the host differs - there is no flag that skips the host
	bit := [...]URICmpFlags{URICmpSkipPort, URICmpSkipScheme, URICmpSkipUser, URICmpSkipPass, URICmpSkipParams, URICmpSkipHeaders, 0}
	vAssert("equal-iff-the-differing-component-is-skipped", URICmp(&u1, b1, &u2, b2, f) == (f&bit[which] != 0))
	vAssert("symmetric", URICmp(&u2, b2, &u1, b1, f) == (f&bit[which] != 0))
	vReach("end")
}
