//go:build verif

package sipsp

// Generic self-composition drivers over "parser adapters". An adapter owns two
// parser objects (index 0 and 1) of the same kind and knows how to call the
// real parser on either of them, how to reset them, and how to compare them.

type vParser struct {
	// parse calls the real parser on object `which`.
	parse func(which int, buf []byte, offs int) (int, ErrorHdr)
	// reset re-initialises object `which` with the type's own Reset/Init.
	reset func(which int)
	// same: complete state equality of the two objects (private
	// continuation fields included) - the resumption lemma.
	same func() bool
	// sameObs: equality of everything exported / observable.
	sameObs func() bool
	// shifted: object 1 equals object 0 with every position shifted by k.
	shifted func(k int) bool
	// twin (optional): give the other object the caller-supplied things that
	// reset deliberately keeps in object `which` (used by the reset driver).
	twin func(which int)
	// more is the verdict that means "call again with more bytes".
	more ErrorHdr
}

// vResume2: the resumption lemma with one intermediate cut i (0 < i < n):
//
//	parse(buf[:i]) ; if it suspends: resume on buf[:n]   (object 0)
//	parse(buf[:n]) one-shot                                (object 1)
//
// verdict, offset, observables and the *complete* object state must agree.
// By induction over the cuts this covers every chunk schedule c1<...<ck<=n:
// after each call the object equals a fresh object parsed on the same prefix.
// i < 0 selects the cut symbolically (all cuts in one run).
func vResume2(p *vParser, buf []byte, start int, i int) {
	n := len(buf)
	if i < 0 {
		if n-start < 2 {
			vReach("end")
			return
		}
		i = start + 1 + vChoice(n-start-1)
	}
	o1, e1 := p.parse(0, buf[:i], start)
	vObs("o1", o1)
	vObs("e1", int(e1))
	if e1 != p.more {
		// definitive before the cut: nothing to resume (C03 covers stability)
		vReach("early")
		return
	}
	o2, e2 := p.parse(0, buf, o1)
	// merge point: states coming from different cuts with the same store
	// are merged here by the engine (loop header), so that the fresh parse
	// below is executed once per distinct resumed state, not once per cut
	for k := 0; k < 1; k++ {
	}
	o, e := p.parse(1, buf, start)
	vObs("o2", o2)
	vObs("e2", int(e2))
	vObs("o", o)
	vObs("e", int(e))
	vAssert("resume-verdict", o2 == o && e2 == e)
	vAssert("resume-observables", p.sameObs())
	if e == p.more {
		// the lemma: a suspended object is indistinguishable from a fresh
		// object suspended on the same prefix (needed only while suspended)
		vAssert("resume-state", p.same())
	}
	vReach("end")
}

// vChain: every chunk schedule of buf[start:] in one run (cuts are symbolic
// booleans): at every visited cut the resumed object 0 agrees with a fresh
// one-shot parse (object 1, reset before each use) of the same prefix.
func vChain(p *vParser, buf []byte, start int) { vChainFrom(p, buf, start, start+1) }

// vChainFrom: as vChain, the first visited cut is at or after minCut (the
// concrete prefix of a template is delivered in one piece).
func vChainFrom(p *vParser, buf []byte, start int, minCut int) {
	n := len(buf)
	offs, e := start, p.more
	for j := minCut; j <= n; j++ {
		if j == n || vBool() {
			offs, e = p.parse(0, buf[:j], offs)
			p.reset(1)
			o1, e1 := p.parse(1, buf[:j], start)
			vObs("offs", offs)
			vObs("err", int(e))
			vAssert("chain-verdict", offs == o1 && e == e1)
			if e != p.more {
				vAssert("chain-observables", p.sameObs())
				vReach("definitive")
				return
			}
		}
	}
	vReach("end")
}

// vPremature (C03): a definitive verdict on buf[:n-1] is not changed by one
// more byte. (By induction on the suffix length this covers every suffix
// within the length bound.)
func vPremature(p *vParser, buf []byte, start int) {
	n := len(buf)
	o1, e1 := p.parse(0, buf[:n-1], start)
	vObs("o1", o1)
	vObs("e1", int(e1))
	if e1 == p.more {
		vReach("suspended")
		return
	}
	o2, e2 := p.parse(1, buf, start)
	vObs("o2", o2)
	vObs("e2", int(e2))
	vAssert("stable-verdict", o1 == o2 && e1 == e2)
	vAssert("stable-values", p.sameObs())
	vReach("end")
}

// vPrematureAll (C03): the same for every prefix buf[:j], from <= j < len(buf),
// of a (template) buffer whose text starts at offset start.
func vPrematureAll(p *vParser, buf []byte, start int, from int) {
	for j := from; j < len(buf); j++ {
		p.reset(0)
		p.reset(1)
		o1, e1 := p.parse(0, buf[:j], start)
		if e1 == p.more {
			continue
		}
		o2, e2 := p.parse(1, buf[:j+1], start)
		vObs("j", j)
		vObs("o1", o1)
		vObs("e1", int(e1))
		vObs("o2", o2)
		vObs("e2", int(e2))
		vAssert("stable-verdict", o1 == o2 && e1 == e2)
		vAssert("stable-values", p.sameObs())
		vReach("definitive")
	}
	vReach("end")
}

// vOffset (C11): the same text parsed at offset k of a longer buffer (object
// 1) and at offset 0 (object 0): same verdict, offset and fields shifted by k.
func vOffset(p *vParser, text []byte, k int) {
	junk := vBytes(2) // the two bytes just before the text are arbitrary
	bufk := vPad(k, junk, text)
	o0, e0 := p.parse(0, text, 0)
	ok, ek := p.parse(1, bufk, k)
	vObs("o0", o0)
	vObs("e0", int(e0))
	vObs("ok", ok)
	vAssert("offset-verdict", e0 == ek && ok == o0+k)
	vAssert("offset-fields", p.shifted(k))
	vReach("end")
}

// vResetLike (C12): history A on object 0 (complete / failed / abandoned at a
// symbolic cut), then the type's reset; object 1 is new. Both then parse B.
func vResetLike(p *vParser, a []byte, b []byte) {
	na := len(a)
	cut := na
	if na > 1 {
		cut = 1 + vChoice(na)
	}
	p.parse(0, a[:cut], 0)
	p.reset(0)
	if p.twin != nil {
		p.twin(0)
	}
	vAssert("reset-state", p.same())
	o0, e0 := p.parse(0, b, 0)
	o1, e1 := p.parse(1, b, 0)
	vObs("o0", o0)
	vObs("e0", int(e0))
	vAssert("reset-verdict", o0 == o1 && e0 == e1)
	vAssert("reset-observables", p.sameObs())
	vReach("end")
}

// pfShift: b is a shifted by k. An empty field at offset 0 is ambiguous
// (unset, or set to the empty string at the start): both readings accepted.
func pfShift(a, b PField, k int) bool {
	if a.Len == 0 && a.Offs == 0 {
		return b.Len == 0 && (b.Offs == 0 || int(b.Offs) == k)
	}
	return int(b.Offs) == int(a.Offs)+k && b.Len == a.Len
}
