//go:build verif

package sipsp

// C02: every exported incremental sub-parser resumes transparently.

// H_C02_cseq: all chunk schedules of an n-byte buffer through ParseCSeqVal;
// at every visited cut the verdict/offset of the resumed object equals a fresh
// one-shot call on the same prefix; at the first definitive verdict the
// exported values agree.
func H_C02_cseq(n int) {
	buf := vBytes(n)
	var inc, one PCSeqBody
	offs, e := 0, ErrHdrMoreBytes
	for j := 1; j <= n; j++ {
		if j == n || vBool() {
			offs, e = ParseCSeqVal(buf[:j], offs, &inc)
			one.Reset()
			o1, e1 := ParseCSeqVal(buf[:j], 0, &one)
			vObs("offs", offs)
			vObs("err", int(e))
			vAssert("verdict", offs == o1 && e == e1)
			if e != ErrHdrMoreBytes {
				if e == 0 {
					vAssert("CSeqNo", inc.CSeqNo == one.CSeqNo)
					vAssert("MethodNo", inc.MethodNo == one.MethodNo)
					vAssert("fields", inc.CSeq == one.CSeq && inc.Method == one.Method && inc.V == one.V)
					vAssert("parsed", inc.Parsed() && one.Parsed())
				}
				vReach("definitive")
				return
			}
		}
	}
	vReach("end")
}
