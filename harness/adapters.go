//go:build verif

package sipsp

// Parser adapters for the generic drivers (drivers.go).

func vNew() *vParser { return &vParser{more: ErrHdrMoreBytes} }

// ---- CSeq ----
func mkCSeq() *vParser {
	var o [2]PCSeqBody
	p := vNew()
	p.parse = func(w int, buf []byte, offs int) (int, ErrorHdr) { return ParseCSeqVal(buf, offs, &o[w]) }
	p.reset = func(w int) { o[w].Reset() }
	p.same = func() bool { return o[0] == o[1] }
	p.sameObs = func() bool {
		a, b := &o[0], &o[1]
		r := vAnd(a.CSeqNo == b.CSeqNo, a.MethodNo == b.MethodNo)
		r = vAnd(r, a.CSeq == b.CSeq && a.Method == b.Method && a.V == b.V)
		return vAnd(r, a.Parsed() == b.Parsed() && a.Empty() == b.Empty())
	}
	p.shifted = func(k int) bool {
		a, b := &o[0], &o[1]
		r := vAnd(a.CSeqNo == b.CSeqNo, a.MethodNo == b.MethodNo)
		return vAnd(r, pfShift(a.CSeq, b.CSeq, k) && pfShift(a.Method, b.Method, k) && pfShift(a.V, b.V, k) && a.Parsed() == b.Parsed())
	}
	return p
}

// ---- Call-ID ----
func mkCallID() *vParser {
	var o [2]PCallIDBody
	p := vNew()
	p.parse = func(w int, buf []byte, offs int) (int, ErrorHdr) { return ParseCallIDVal(buf, offs, &o[w]) }
	p.reset = func(w int) { o[w].Reset() }
	p.same = func() bool { return o[0] == o[1] }
	p.sameObs = func() bool {
		return o[0].CallID == o[1].CallID && o[0].Parsed() == o[1].Parsed() && o[0].Empty() == o[1].Empty()
	}
	p.shifted = func(k int) bool { return pfShift(o[0].CallID, o[1].CallID, k) && o[0].Parsed() == o[1].Parsed() }
	return p
}

// ---- unsigned int values: kind 0 = ParseUIntVal, 1 = ParseCLenVal, 2 = ParseExpiresVal ----
func mkUInt(kind int) *vParser {
	var o [2]PUIntBody
	p := vNew()
	p.parse = func(w int, buf []byte, offs int) (int, ErrorHdr) {
		switch kind {
		case 1:
			return ParseCLenVal(buf, offs, &o[w])
		case 2:
			return ParseExpiresVal(buf, offs, &o[w])
		}
		return ParseUIntVal(buf, offs, &o[w])
	}
	p.reset = func(w int) { o[w].Reset() }
	p.same = func() bool { return o[0] == o[1] }
	p.sameObs = func() bool {
		return vAnd(o[0].UIVal == o[1].UIVal, o[0].SVal == o[1].SVal && o[0].Parsed() == o[1].Parsed() && o[0].Empty() == o[1].Empty())
	}
	p.shifted = func(k int) bool {
		return vAnd(o[0].UIVal == o[1].UIVal, pfShift(o[0].SVal, o[1].SVal, k) && o[0].Parsed() == o[1].Parsed())
	}
	return p
}

// ---- first line ----
func mkFLine() *vParser {
	var o [2]PFLine
	p := vNew()
	p.parse = func(w int, buf []byte, offs int) (int, ErrorHdr) { return ParseFLine(buf, offs, &o[w]) }
	p.reset = func(w int) { o[w].Reset() }
	p.same = func() bool { return o[0] == o[1] }
	p.sameObs = func() bool { return o[0] == o[1] }
	p.shifted = func(k int) bool {
		a, b := &o[0], &o[1]
		r := vAnd(a.Status == b.Status, a.MethodNo == b.MethodNo)
		return vAnd(r, pfShift(a.Method, b.Method, k) && pfShift(a.URI, b.URI, k) && pfShift(a.Version, b.Version, k) &&
			pfShift(a.StatusCode, b.StatusCode, k) && pfShift(a.Reason, b.Reason, k) && a.Parsed() == b.Parsed())
	}
	return p
}

func fromShift(a, b *PFromBody, k int) bool {
	r := pfShift(a.Name, b.Name, k) && pfShift(a.URI, b.URI, k) && pfShift(a.Tag, b.Tag, k) &&
		pfShift(a.Params, b.Params, k) && pfShift(a.V, b.V, k) &&
		a.Star == b.Star && a.LR == b.LR && a.HasExpires == b.HasExpires && a.Type == b.Type &&
		a.ParamErr == b.ParamErr && a.Parsed() == b.Parsed()
	r2 := vAnd(a.Q == b.Q, a.Expires == b.Expires)
	if a.ParamErr != 0 {
		r = r && int(b.ErrOffs) == int(a.ErrOffs)+k
	}
	return vAnd(r2, r)
}

// ---- name-addr value: h = header type ----
func mkNameAddr(h HdrT) *vParser {
	var o [2]PFromBody
	p := vNew()
	p.parse = func(w int, buf []byte, offs int) (int, ErrorHdr) { return ParseNameAddrPVal(h, buf, offs, &o[w]) }
	p.reset = func(w int) { o[w].Reset() }
	p.same = func() bool { return o[0] == o[1] }
	p.sameObs = func() bool { return fromObsEq(&o[0], &o[1]) }
	p.shifted = func(k int) bool { return fromShift(&o[0], &o[1], k) }
	return p
}

// exported fields of a PFromBody
func fromObsEq(a, b *PFromBody) bool {
	r := a.Name == b.Name && a.URI == b.URI && a.Tag == b.Tag && a.Params == b.Params && a.V == b.V &&
		a.Star == b.Star && a.LR == b.LR && a.HasExpires == b.HasExpires && a.Type == b.Type &&
		a.ParamErr == b.ParamErr && a.ErrOffs == b.ErrOffs && a.Parsed() == b.Parsed() && a.Empty() == b.Empty()
	return vAnd(vAnd(a.Q == b.Q, a.Expires == b.Expires), r)
}

// ---- single header line; hb: 0 = nil, 1 = *PHdrVals ----
func mkHdrLine(hb int, ccap int) *vParser {
	var h [2]Hdr
	var pv [2]PHdrVals
	var cbuf [2][3]PFromBody
	if ccap >= 0 {
		pv[0].Init(cbuf[0][:ccap])
		pv[1].Init(cbuf[1][:ccap])
	}
	p := vNew()
	p.parse = func(w int, buf []byte, offs int) (int, ErrorHdr) {
		if hb == 0 {
			return ParseHdrLine(buf, offs, &h[w], nil)
		}
		return ParseHdrLine(buf, offs, &h[w], &pv[w])
	}
	p.reset = func(w int) { h[w].Reset(); pv[w].Reset() }
	p.same = func() bool { return vAnd(h[0] == h[1], hdrValsSame(&pv[0], &pv[1])) }
	p.sameObs = func() bool { return vAnd(h[0] == h[1], hdrValsObs(&pv[0], &pv[1])) }
	p.shifted = func(k int) bool {
		return h[0].Type == h[1].Type && pfShift(h[0].Name, h[1].Name, k) && pfShift(h[0].Val, h[1].Val, k)
	}
	return p
}

func contactsSame(a, b *PContacts) bool {
	r := a.N == b.N && a.HNo == b.HNo && a.LastHVal == b.LastHVal && len(a.Vals) == len(b.Vals)
	r2 := vAnd(a.MaxExpires == b.MaxExpires, a.MinExpires == b.MinExpires)
	r2 = vAnd(r2, vAnd(a.last == b.last, a.first == b.first))
	if len(a.Vals) == len(b.Vals) {
		for i := range a.Vals {
			r2 = vAnd(r2, a.Vals[i] == b.Vals[i])
		}
	}
	return vAnd(r2, r)
}

func contactsObs(a, b *PContacts) bool {
	r := a.N == b.N && a.HNo == b.HNo && a.LastHVal == b.LastHVal && a.VNo() == b.VNo() && a.More() == b.More()
	r2 := vAnd(a.MaxExpires == b.MaxExpires, a.MinExpires == b.MinExpires)
	if a.VNo() == b.VNo() {
		for i := 0; i < a.VNo(); i++ {
			r2 = vAnd(r2, fromObsEq(&a.Vals[i], &b.Vals[i]))
		}
	}
	return vAnd(r2, r)
}

func paisSame(a, b *PPAIs) bool { return *a == *b }

func paisObs(a, b *PPAIs) bool {
	r := a.N == b.N && a.HNo == b.HNo && a.LastHVal == b.LastHVal
	r2 := true
	for i := 0; i < a.VNo() && i < b.VNo(); i++ {
		r2 = vAnd(r2, fromObsEq(&a.Vals[i], &b.Vals[i]))
	}
	return vAnd(r2, r)
}

func hdrValsSame(a, b *PHdrVals) bool {
	r := vAnd(a.From == b.From, a.To == b.To)
	r = vAnd(r, vAnd(a.Callid == b.Callid, a.CSeq == b.CSeq))
	r = vAnd(r, vAnd(a.CLen == b.CLen, a.Expires == b.Expires))
	return vAnd(r, vAnd(contactsSame(&a.Contacts, &b.Contacts), paisSame(&a.PAIs, &b.PAIs)))
}

func hdrValsObs(a, b *PHdrVals) bool {
	r := vAnd(fromObsEq(&a.From, &b.From), fromObsEq(&a.To, &b.To))
	r = vAnd(r, a.Callid.CallID == b.Callid.CallID && a.Callid.Parsed() == b.Callid.Parsed())
	r = vAnd(r, vAnd(a.CSeq.CSeqNo == b.CSeq.CSeqNo, a.CSeq.MethodNo == b.CSeq.MethodNo))
	r = vAnd(r, a.CSeq.CSeq == b.CSeq.CSeq && a.CSeq.Method == b.CSeq.Method && a.CSeq.V == b.CSeq.V && a.CSeq.Parsed() == b.CSeq.Parsed())
	r = vAnd(r, vAnd(a.CLen.UIVal == b.CLen.UIVal, a.CLen.SVal == b.CLen.SVal && a.CLen.Parsed() == b.CLen.Parsed()))
	r = vAnd(r, vAnd(a.Expires.UIVal == b.Expires.UIVal, a.Expires.SVal == b.Expires.SVal && a.Expires.Parsed() == b.Expires.Parsed()))
	return vAnd(r, vAnd(contactsObs(&a.Contacts, &b.Contacts), paisObs(&a.PAIs, &b.PAIs)))
}

func hdrLstSame(a, b *HdrLst) bool {
	r := a.PFlags == b.PFlags && a.N == b.N && len(a.Hdrs) == len(b.Hdrs) && a.h == b.h && a.hdr == b.hdr
	if len(a.Hdrs) == len(b.Hdrs) {
		for i := range a.Hdrs {
			r = r && a.Hdrs[i] == b.Hdrs[i]
		}
	}
	return r
}

func hdrPub(a, b *Hdr) bool { return a.Type == b.Type && a.Name == b.Name && a.Val == b.Val }

func hdrLstObs(a, b *HdrLst) bool {
	r := a.PFlags == b.PFlags && a.N == b.N
	na, nb := a.N, b.N
	if na > len(a.Hdrs) {
		na = len(a.Hdrs)
	}
	if nb > len(b.Hdrs) {
		nb = len(b.Hdrs)
	}
	r = r && na == nb
	for i := 0; i < na && i < nb; i++ {
		r = r && hdrPub(&a.Hdrs[i], &b.Hdrs[i])
	}
	for t := HdrNone + 1; t < HdrOther; t++ {
		r = r && hdrPub(a.GetHdr(t), b.GetHdr(t))
	}
	return r
}

// ---- header block; hcap/ccap: capacity of caller arrays (-1: ccap = no Init) ----
func mkHeaders(hcap, ccap int) *vParser {
	var hl [2]HdrLst
	var pv [2]PHdrVals
	var hbuf [2][4]Hdr
	var cbuf [2][3]PFromBody
	for w := 0; w < 2; w++ {
		hl[w].Hdrs = hbuf[w][:hcap]
		if ccap >= 0 {
			pv[w].Init(cbuf[w][:ccap])
		}
	}
	p := vNew()
	p.parse = func(w int, buf []byte, offs int) (int, ErrorHdr) { return ParseHeaders(buf, offs, &hl[w], &pv[w]) }
	p.reset = func(w int) { hl[w].Reset(); pv[w].Reset() }
	p.same = func() bool { return vAnd(hdrLstSame(&hl[0], &hl[1]), hdrValsSame(&pv[0], &pv[1])) }
	p.sameObs = func() bool { return vAnd(hdrLstObs(&hl[0], &hl[1]), hdrValsObs(&pv[0], &pv[1])) }
	p.shifted = func(k int) bool {
		a, b := &hl[0], &hl[1]
		r := a.PFlags == b.PFlags && a.N == b.N
		for i := 0; i < a.N && i < len(a.Hdrs); i++ {
			r = r && a.Hdrs[i].Type == b.Hdrs[i].Type && pfShift(a.Hdrs[i].Name, b.Hdrs[i].Name, k) && pfShift(a.Hdrs[i].Val, b.Hdrs[i].Val, k)
		}
		r2 := vAnd(fromShift(&pv[0].From, &pv[1].From, k), fromShift(&pv[0].To, &pv[1].To, k))
		r2 = vAnd(r2, vAnd(pv[0].CSeq.CSeqNo == pv[1].CSeq.CSeqNo, pv[0].CLen.UIVal == pv[1].CLen.UIVal))
		r2 = vAnd(r2, pfShift(pv[0].Callid.CallID, pv[1].Callid.CallID, k) && pv[0].Contacts.N == pv[1].Contacts.N && pv[0].PAIs.N == pv[1].PAIs.N)
		return vAnd(r2, r)
	}
	return p
}

// ---- all contact values / all PAI values ----
func mkContacts(ccap int) *vParser {
	var c [2]PContacts
	var cbuf [2][3]PFromBody
	if ccap >= 0 {
		c[0].Init(cbuf[0][:ccap])
		c[1].Init(cbuf[1][:ccap])
	}
	p := vNew()
	p.parse = func(w int, buf []byte, offs int) (int, ErrorHdr) { return ParseAllContactValues(buf, offs, &c[w]) }
	p.reset = func(w int) { c[w].Reset() }
	p.same = func() bool { return contactsSame(&c[0], &c[1]) }
	p.sameObs = func() bool { return contactsObs(&c[0], &c[1]) }
	p.shifted = func(k int) bool {
		a, b := &c[0], &c[1]
		r := a.N == b.N && pfShift(a.LastHVal, b.LastHVal, k)
		r2 := vAnd(a.MaxExpires == b.MaxExpires, a.MinExpires == b.MinExpires)
		for i := 0; i < a.VNo() && i < b.VNo(); i++ {
			r2 = vAnd(r2, fromShift(&a.Vals[i], &b.Vals[i], k))
		}
		return vAnd(r2, r)
	}
	return p
}

func mkPAIs() *vParser {
	var c [2]PPAIs
	p := vNew()
	p.parse = func(w int, buf []byte, offs int) (int, ErrorHdr) { return ParseAllPAIValues(buf, offs, &c[w]) }
	p.reset = func(w int) { c[w].Reset() }
	p.same = func() bool { return paisSame(&c[0], &c[1]) }
	p.sameObs = func() bool { return paisObs(&c[0], &c[1]) }
	p.shifted = func(k int) bool {
		a, b := &c[0], &c[1]
		r := a.N == b.N && pfShift(a.LastHVal, b.LastHVal, k)
		r2 := true
		for i := 0; i < a.VNo() && i < b.VNo(); i++ {
			r2 = vAnd(r2, fromShift(&a.Vals[i], &b.Vals[i], k))
		}
		return vAnd(r2, r)
	}
	return p
}

// one Contact / PAI value (list-parsers' building block; MoreValues is definitive)
func mkOneContact(pai int) *vParser {
	var o [2]PFromBody
	p := vNew()
	p.parse = func(w int, buf []byte, offs int) (int, ErrorHdr) {
		if pai != 0 {
			return ParseOnePAI(buf, offs, &o[w])
		}
		return ParseOneContact(buf, offs, &o[w])
	}
	p.reset = func(w int) { o[w].Reset() }
	p.same = func() bool { return o[0] == o[1] }
	p.sameObs = func() bool { return fromObsEq(&o[0], &o[1]) }
	p.shifted = func(k int) bool { return fromShift(&o[0], &o[1], k) }
	return p
}

// ---- token parameter ----
func tokShift(a, b *PTokParam, k int) bool {
	return pfShift(a.All, b.All, k) && pfShift(a.Name, b.Name, k) && pfShift(a.Val, b.Val, k)
}

func mkTokParam(flags POptFlags) *vParser {
	var o [2]PTokParam
	p := vNew()
	p.parse = func(w int, buf []byte, offs int) (int, ErrorHdr) { return ParseTokenParam(buf, offs, &o[w], flags) }
	p.reset = func(w int) { o[w].Reset() }
	p.same = func() bool { return o[0] == o[1] }
	p.sameObs = func() bool { return o[0].All == o[1].All && o[0].Name == o[1].Name && o[0].Val == o[1].Val }
	p.shifted = func(k int) bool { return tokShift(&o[0], &o[1], k) }
	return p
}

// ---- URI parameter / header lists ----
func mkURIParams(pcap int, flags POptFlags) *vParser {
	var l [2]URIParamsLst
	var pb [2][3]URIParam
	l[0].Init(pb[0][:pcap])
	l[1].Init(pb[1][:pcap])
	p := vNew()
	p.parse = func(w int, buf []byte, offs int) (int, ErrorHdr) {
		o, _, e := ParseAllURIParams(buf, offs, &l[w], flags)
		return o, e
	}
	p.reset = func(w int) { l[w].Reset() }
	p.same = func() bool {
		r := l[0].N == l[1].N && l[0].Types == l[1].Types && l[0].tmp == l[1].tmp
		for i := 0; i < pcap; i++ {
			r = r && l[0].Params[i] == l[1].Params[i]
		}
		return r
	}
	p.sameObs = func() bool {
		r := l[0].N == l[1].N && l[0].Types == l[1].Types && l[0].More() == l[1].More()
		for i := 0; i < l[0].PNo() && i < l[1].PNo(); i++ {
			a, b := &l[0].Params[i], &l[1].Params[i]
			r = r && a.T == b.T && a.Param.All == b.Param.All && a.Param.Name == b.Param.Name && a.Param.Val == b.Param.Val
		}
		return r
	}
	p.shifted = func(k int) bool {
		r := l[0].N == l[1].N && l[0].Types == l[1].Types
		for i := 0; i < l[0].PNo() && i < l[1].PNo(); i++ {
			r = r && l[0].Params[i].T == l[1].Params[i].T && tokShift(&l[0].Params[i].Param, &l[1].Params[i].Param, k)
		}
		return r
	}
	return p
}

func mkURIHdrs(hcap int, flags POptFlags) *vParser {
	var l [2]URIHdrsLst
	var hb [2][3]URIHdr
	l[0].Init(hb[0][:hcap])
	l[1].Init(hb[1][:hcap])
	p := vNew()
	p.parse = func(w int, buf []byte, offs int) (int, ErrorHdr) {
		o, _, e := ParseAllURIHdrs(buf, offs, &l[w], flags)
		return o, e
	}
	p.reset = func(w int) { l[w].Reset() }
	p.same = func() bool {
		r := l[0].N == l[1].N && l[0].tmp == l[1].tmp
		for i := 0; i < hcap; i++ {
			r = r && l[0].Hdrs[i] == l[1].Hdrs[i]
		}
		return r
	}
	p.sameObs = func() bool {
		r := l[0].N == l[1].N && l[0].More() == l[1].More()
		for i := 0; i < l[0].HNo() && i < l[1].HNo(); i++ {
			a, b := &l[0].Hdrs[i], &l[1].Hdrs[i]
			r = r && a.All == b.All && a.Name == b.Name && a.Val == b.Val
		}
		return r
	}
	p.shifted = func(k int) bool {
		r := l[0].N == l[1].N
		for i := 0; i < l[0].HNo() && i < l[1].HNo(); i++ {
			r = r && tokShift((*PTokParam)(&l[0].Hdrs[i]), (*PTokParam)(&l[1].Hdrs[i]), k)
		}
		return r
	}
	return p
}

// ---- quoted-string skipper (stateless: offset is the only continuation) ----
func mkSkipQuoted() *vParser {
	p := vNew()
	p.parse = func(w int, buf []byte, offs int) (int, ErrorHdr) { return SkipQuoted(buf, offs) }
	p.reset = func(w int) {}
	p.same = func() bool { return true }
	p.sameObs = func() bool { return true }
	p.shifted = func(k int) bool { return true }
	return p
}

// ---- whole message ----
func msgSame(a, b *PSIPMsg) bool {
	r := a.FL == b.FL && a.Body == b.Body && a.state == b.state && a.offs == b.offs && len(a.Buf) == len(b.Buf) && len(a.RawMsg) == len(b.RawMsg)
	r2 := vAnd(hdrLstSame(&a.HL, &b.HL), hdrValsSame(&a.PV, &b.PV))
	return vAnd(r2, r)
}

func msgObs(a, b *PSIPMsg) bool {
	r := a.Body == b.Body && a.Parsed() == b.Parsed() && a.Err() == b.Err() && len(a.Buf) == len(b.Buf) && len(a.RawMsg) == len(b.RawMsg)
	r2 := vAnd(a.FL == b.FL, vAnd(a.Request() == b.Request(), a.Method() == b.Method()))
	r2 = vAnd(r2, vAnd(hdrLstObs(&a.HL, &b.HL), hdrValsObs(&a.PV, &b.PV)))
	return vAnd(r2, r)
}

// hcap/ccap < 0: nil (PSIPMsg's default arrays)
func mkMsg(flags uint8, hcap, ccap int) *vParser {
	var m [2]PSIPMsg
	var hbuf [2][4]Hdr
	var cbuf [2][3]PFromBody
	initw := func(w int) {
		var hs []Hdr
		var cs []PFromBody
		if hcap >= 0 {
			hs = hbuf[w][:hcap]
		}
		if ccap >= 0 {
			cs = cbuf[w][:ccap]
		}
		m[w].Init(nil, hs, cs)
	}
	initw(0)
	initw(1)
	p := vNew()
	p.parse = func(w int, buf []byte, offs int) (int, ErrorHdr) { return ParseSIPMsg(buf, offs, &m[w], flags) }
	// Reset deliberately keeps the caller-supplied buffer reference (Buf), as it
	// keeps the caller-supplied arrays: the twin object gets the same one.
	p.reset = func(w int) { m[w].Reset() }
	p.twin = func(w int) { m[1-w].Buf = m[w].Buf }
	p.same = func() bool { return msgSame(&m[0], &m[1]) }
	p.sameObs = func() bool { return msgObs(&m[0], &m[1]) }
	p.shifted = func(k int) bool {
		a, b := &m[0], &m[1]
		r := pfShift(a.Body, b.Body, k) && a.Parsed() == b.Parsed() && a.Err() == b.Err() && len(a.RawMsg) == len(b.RawMsg) &&
			pfShift(a.FL.Method, b.FL.Method, k) && pfShift(a.FL.URI, b.FL.URI, k) && pfShift(a.FL.Version, b.FL.Version, k) &&
			pfShift(a.FL.StatusCode, b.FL.StatusCode, k) && pfShift(a.FL.Reason, b.FL.Reason, k) && a.HL.N == b.HL.N && a.HL.PFlags == b.HL.PFlags
		for i := 0; i < a.HL.N && i < len(a.HL.Hdrs); i++ {
			r = r && a.HL.Hdrs[i].Type == b.HL.Hdrs[i].Type && pfShift(a.HL.Hdrs[i].Name, b.HL.Hdrs[i].Name, k) && pfShift(a.HL.Hdrs[i].Val, b.HL.Hdrs[i].Val, k)
		}
		r2 := vAnd(a.FL.Status == b.FL.Status, a.FL.MethodNo == b.FL.MethodNo)
		r2 = vAnd(r2, vAnd(fromShift(&a.PV.From, &b.PV.From, k), fromShift(&a.PV.To, &b.PV.To, k)))
		r2 = vAnd(r2, vAnd(a.PV.CSeq.CSeqNo == b.PV.CSeq.CSeqNo, a.PV.CLen.UIVal == b.PV.CLen.UIVal))
		r2 = vAnd(r2, pfShift(a.PV.Callid.CallID, b.PV.Callid.CallID, k) && a.PV.Contacts.N == b.PV.Contacts.N && a.PV.PAIs.N == b.PV.PAIs.N)
		return vAnd(r2, r)
	}
	return p
}

// vParserByID selects an adapter by a small integer (job parameter).
//
//	0 cseq 1 callid 2 uint 3 clen 4 expires 5 fline 6 from 7 to(name-addr HdrTo)
//	8 contact-value 9 pai-value 10 route 11 hdrline(nil) 12 hdrline(PHdrVals)
//	13 headers(cap 2,2) 14 headers(cap 1,1) 15 headers(cap 0,0) 16 contacts(2)
//	17 contacts(1) 18 contacts(0) 19 pais 20 one-contact 21 one-pai 22 skipquoted
//	23.. tokparam flag sets, 30.. uri params, 34.. uri hdrs, 40.. message
func vParserByID(id int) *vParser {
	switch id {
	case 0:
		return mkCSeq()
	case 1:
		return mkCallID()
	case 2:
		return mkUInt(0)
	case 3:
		return mkUInt(1)
	case 4:
		return mkUInt(2)
	case 5:
		return mkFLine()
	case 6:
		return mkNameAddr(HdrFrom)
	case 7:
		return mkNameAddr(HdrTo)
	case 8:
		return mkNameAddr(HdrContact)
	case 9:
		return mkNameAddr(HdrPAI)
	case 10:
		return mkNameAddr(HdrRoute)
	case 11:
		return mkHdrLine(0, -1)
	case 12:
		return mkHdrLine(1, 2)
	case 13:
		return mkHeaders(2, 2)
	case 14:
		return mkHeaders(1, 1)
	case 15:
		return mkHeaders(0, 0)
	case 16:
		return mkContacts(2)
	case 17:
		return mkContacts(1)
	case 18:
		return mkContacts(0)
	case 19:
		return mkPAIs()
	case 20:
		return mkOneContact(0)
	case 21:
		return mkOneContact(1)
	case 22:
		return mkSkipQuoted()
	case 23:
		return mkTokParam(POptParamSemiSepF)
	case 24:
		return mkTokParam(POptParamSemiSepF | POptTokCommaTermF)
	case 25:
		return mkTokParam(POptParamSemiSepF | POptTokSpTermF)
	case 26:
		return mkTokParam(POptTokURIParamF)
	case 27:
		return mkTokParam(POptTokURIHdrF)
	case 28:
		return mkTokParam(POptParamSemiSepF | POptTokQmTermF)
	case 30:
		return mkURIParams(2, POptTokURIParamF)
	case 31:
		return mkURIParams(1, POptTokURIParamF)
	case 32:
		return mkURIParams(0, POptTokURIParamF)
	case 33:
		return mkURIParams(2, POptTokURIParamF|POptTokSpTermF)
	case 34:
		return mkURIHdrs(2, POptTokURIHdrF)
	case 35:
		return mkURIHdrs(1, POptTokURIHdrF)
	case 36:
		return mkURIHdrs(0, POptTokURIHdrF)
	case 40:
		return mkMsg(0, -1, -1)
	case 41:
		return mkMsg(SIPMsgSkipBodyF, -1, -1)
	case 42:
		return mkMsg(SIPMsgCLenReqF, -1, -1)
	case 43:
		return mkMsg(SIPMsgSkipBodyF|SIPMsgCLenReqF, -1, -1)
	case 44:
		return mkMsg(0, 1, 1)
	case 45:
		return mkMsg(0, 0, 0)
	case 46:
		return mkMsg(0, 2, 2)
	}
	return nil
}
