//go:build verif

package sipsp

// C20: IPv4 detection sound and complete; decoded bytes exact.

func isDig(c byte) bool { return c >= '0' && c <= '9' }

// refIP4At: four groups of 1-3 digits each <= 255 (maximal munch), the first
// three followed by '.', starting at o. res: 1 ok, 0 cannot be an address,
// -1 input ended while still a possible address prefix.
func refIP4At(buf []byte, o int) (res int, end int, vals [4]int) {
	p := o
	for g := 0; g < 4; g++ {
		v, nd := 0, 0
		for nd < 3 && p < len(buf) && isDig(buf[p]) && v*10+int(buf[p]-'0') <= 255 {
			v = v*10 + int(buf[p]-'0')
			p++
			nd++
		}
		if nd == 0 {
			if p >= len(buf) {
				return -1, p, vals
			}
			return 0, p, vals
		}
		vals[g] = v
		if g < 3 {
			if p >= len(buf) {
				return -1, p, vals
			}
			if buf[p] != '.' {
				return 0, p, vals
			}
			p++
		}
	}
	return 1, p, vals
}

func H_C20_prefix(n int, dl int) { c20prefix(vBytes(n), dl) }

// H_C20_prefix_full: four groups of g symbolic bytes separated by dots and
// followed by tail symbolic bytes (g = 3: the longest possible address).
func H_C20_prefix_full(g, tail int) {
	var buf []byte
	for i := 0; i < 4; i++ {
		if i > 0 {
			buf = append(buf, '.')
		}
		buf = append(buf, vBytes(g)...)
	}
	buf = append(buf, vBytes(tail)...)
	c20prefix(buf, 4)
}

func c20prefix(buf []byte, dl int) {
	n := len(buf)
	var dstArr [5]byte
	dst := dstArr[:dl]
	ok, o, e := IP4Prefix(buf, dst)
	res, end, vals := refIP4At(buf, 0)
	vObs("o", o)
	vObs("e", int(e))
	vAssert("accepts-exactly-addresses", ok == (res == 1))
	if ok {
		vAssert("stops-after-address", o == end)
		if end >= n {
			vAssert("verdict-end-of-input", e == ErrHdrOk)
		} else if isDig(buf[end]) {
			vAssert("verdict-followed-by-digit", e == ErrHdrMoreValues)
		} else {
			vAssert("verdict-followed-by-other", e == ErrHdrBadChar)
		}
		if dl >= 4 {
			for i := 0; i < 4; i++ {
				vAssert("address-bytes-exact", int(dst[i]) == vals[i])
			}
		}
		vReach("accepted")
	} else {
		if res == -1 {
			vAssert("verdict-truncated", e == ErrHdrMoreBytes)
		} else {
			vAssert("verdict-not-an-address", e == ErrHdrBad)
		}
		vAssert("stop-offset-inside", o >= 0 && o <= n)
		vReach("rejected")
	}
	vReach("end")
}

func H_C20_contains(n int) {
	buf := vBytes(n)
	var dst [4]byte
	found, offs, l := ContainsIP4(buf, dst[:])
	vObs("offs", offs)
	vObs("len", l)
	any := false
	for o := 0; o < n; o++ {
		res, _, _ := refIP4At(buf, o)
		if res == 1 {
			any = true
		}
	}
	vAssert("found-iff-contains", found == any)
	if found {
		res, end, vals := refIP4At(buf, offs)
		vAssert("span-is-an-address", res == 1 && offs+l <= n)
		vAssert("span-length", end == offs+l)
		for i := 0; i < 4; i++ {
			vAssert("address-bytes-exact", int(dst[i]) == vals[i])
		}
		vReach("found")
	}
	vReach("end")
}

// H_C20_cid: GetCallIDSig start/middle/end flags agree with the span reported
// by ContainsIP4. The string is pre symbolic bytes + "1.2.3." + one symbolic
// digit + post symbolic bytes (a fully symbolic string needs >= 7 bytes to
// contain an address, which is too expensive through getStrCharsSig).
func H_C20_cid(pre, post int) {
	buf := append([]byte(nil), vBytes(pre)...)
	buf = append(buf, "1.2.3."...)
	d := vByte()
	vAssume(d >= '0' && d <= '9')
	buf = append(buf, d)
	buf = append(buf, vBytes(post)...)
	n := len(buf)
	found, offs, l := ContainsIP4(buf, nil)
	sig, _ := GetCallIDSig(buf)
	vAssert("address-found", found)
	if found {
		if offs == 0 {
			vAssert("ip-start-flag", sig&SigIPStartF != 0)
		} else if offs+l == n {
			vAssert("ip-end-flag", sig&SigIPEndF != 0 && sig&SigIPStartF == 0)
		} else {
			vAssert("ip-middle-flag", sig&SigIPMiddleF != 0 && sig&(SigIPStartF|SigIPEndF) == 0)
		}
		vReach("found")
	}
	vReach("end")
}
