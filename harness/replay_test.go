//go:build verif

package sipsp

// Native replay of solver models / witnesses: the same harness functions run
// against the natively compiled package, reading the model as a replay vector.

import (
	"encoding/json"
	"fmt"
	"os"
	"runtime/debug"
	"testing"
	"time"
)

type vReplayIn struct {
	Harness string  `json:"harness"`
	Args    []int   `json:"args"`
	Vector  vVector `json:"vector"`
}

type vReplayOut struct {
	Outcome string   `json:"outcome"` // ok | assert | panic | timeout | assume | unknown-harness
	Failed  []string `json:"failed,omitempty"`
	Panic   string   `json:"panic,omitempty"`
	Log     []string `json:"log"`
}

func vRunOne(in vReplayIn) (out vReplayOut) {
	r := &vRun{vec: in.Vector}
	vCur = r
	digest := vGlobalsDigest()
	defer func() {
		if vGlobalsDigest() != digest {
			// a call modified package-level state (C04 isolation)
			r.failed = append(r.failed, "isolation:package-state-modified")
			out.Failed = r.failed
			if out.Outcome == "ok" {
				out.Outcome = "assert"
			}
		}
	}()
	defer func() {
		if p := recover(); p != nil {
			if _, ok := p.(vAssumeFailed); ok {
				out.Outcome = "assume"
			} else {
				out.Outcome = "panic"
				out.Panic = fmt.Sprint(p)
				if os.Getenv("VERIF_REPLAY_STACK") != "" {
					out.Panic += "\n" + string(debug.Stack())
				}
			}
			out.Log = r.log
			out.Failed = r.failed
		}
	}()
	if !vDispatch(in.Harness, in.Args) {
		out.Outcome = "unknown-harness"
		return
	}
	out.Log = r.log
	out.Failed = r.failed
	if len(r.failed) > 0 {
		out.Outcome = "assert"
	} else {
		out.Outcome = "ok"
	}
	return
}

func TestVerifReplay(t *testing.T) {
	inPath, outPath := os.Getenv("VERIF_REPLAY_IN"), os.Getenv("VERIF_REPLAY_OUT")
	if inPath == "" {
		t.Skip("no VERIF_REPLAY_IN")
	}
	data, err := os.ReadFile(inPath)
	if err != nil {
		t.Fatal(err)
	}
	var ins []vReplayIn
	if err := json.Unmarshal(data, &ins); err != nil {
		t.Fatal(err)
	}
	outs := make([]vReplayOut, 0, len(ins))
	flush := func() {
		b, _ := json.Marshal(outs)
		os.WriteFile(outPath, b, 0o644)
	}
	for _, in := range ins {
		ch := make(chan vReplayOut, 1)
		go func() { ch <- vRunOne(in) }()
		select {
		case o := <-ch:
			outs = append(outs, o)
		case <-time.After(10 * time.Second):
			// a native run that does not return: report and stop (the
			// goroutine cannot be killed); the driver re-invokes for the rest
			outs = append(outs, vReplayOut{Outcome: "timeout"})
			flush()
			os.Exit(0)
		}
	}
	flush()
}
