#!/bin/bash
# usage: seedtest.sh <seed-dir> <name> <property> [more properties to run...]
# Confirms a seeded change in a scratch worktree (tests pass with it, demo fails
# with it and passes without), then applies it to /repo, runs the quick checks
# of the given properties, and undoes it. Results go to /verif/seeded/<name>/.
set -u
export GOFLAGS=-mod=mod GOPROXY=off GOSUMDB=off GOTOOLCHAIN=local
src=$1; name=$2; shift 2
out=/verif/seeded/$name
mkdir -p $out
cp $src/patch.diff $out/patch.diff
cp $src/demo_test.go $out/demo_test.go
[ -f $src/meta.txt ] && cp $src/meta.txt $out/meta.txt
sc=$(mktemp -d /tmp/sc-XXXX)
git -C /repo worktree add -q --detach $sc/repo HEAD
cd $sc/repo
res_apply=fail; res_tests=fail; res_demo_with=unknown; res_demo_without=unknown
if git apply $out/patch.diff; then res_apply=ok; fi
if go test -vet=off -count=1 ./... >/dev/null 2>&1; then res_tests=pass; fi
cp $out/demo_test.go ./zz_seed_demo_test.go
if go test -vet=off -count=1 -run TestSeedDemo . >/dev/null 2>&1; then res_demo_with=pass; else res_demo_with=fail; fi
git checkout -q -- . 
if go test -vet=off -count=1 -run TestSeedDemo . >/dev/null 2>&1; then res_demo_without=pass; else res_demo_without=fail; fi
cd /verif
git -C /repo worktree remove --force $sc/repo; rm -rf $sc
echo "confirm: apply=$res_apply tests_with_change=$res_tests demo_with_change=$res_demo_with demo_without=$res_demo_without"
rm -f $out/.checks
if [ "$res_apply" = ok ] && [ "$res_tests" = pass ] && [ "$res_demo_with" = fail ] && [ "$res_demo_without" = pass ]; then
  git -C /repo apply $out/patch.diff
  for p in "$@"; do
    cp /verif/evidence/$p.json /tmp/ev-$p.json 2>/dev/null
    timeout 3000 /verif/bin/sver check $p --tier quick > $out/check-$p.log 2>&1; rc=$?
    cp /tmp/ev-$p.json /verif/evidence/$p.json 2>/dev/null
    nv=$(grep -c '^VIOLATION' $out/check-$p.log)
    echo "check $p: exit=$rc violations=$nv"; grep -m3 "  violation " $out/check-$p.log | cut -c1-300
    echo "$p $rc $nv" >> $out/.checks
  done
  git -C /repo checkout -- .
  rm -f /verif/replays/*.json
else
  echo "NOT CONFIRMED - not kept"
fi
git -C /repo status --short | head -3
python3 - <<PY
import json
json.dump({"name":"$name","breaks_property":"$1","confirmed":{"patch_applies":"$res_apply","existing_tests_with_change":"$res_tests","demo_with_change":"$res_demo_with","demo_without_change":"$res_demo_without"},
 "checks_run":[dict(zip(("property","exit","violation_lines"),(l.split()[0],int(l.split()[1]),int(l.split()[2])))) for l in (open("$out/.checks").read().splitlines() if __import__('os').path.exists("$out/.checks") else [])],
 "needs_to_manifest":open("$out/meta.txt").read() if __import__('os').path.exists("$out/meta.txt") else "",
 "ran":"seedtest.sh: scratch worktree: git apply; go test ./...; go test -run TestSeedDemo (with / without); then git -C /repo apply; bin/sver check <property> --tier quick; git -C /repo checkout -- ."},
 open("$out/meta.json","w"),indent=1)
PY
rm -f $out/.checks
