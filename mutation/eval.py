#!/usr/bin/env python3
"""Runs the quick checks of the properties anchored in the mutated file against
each surviving mutant (scratch worktree + scratch copy of /verif; /repo and
/verif/evidence are not touched). Stops at the first check that reports a
VIOLATION. Output: results.jsonl (appended; already evaluated mutants skipped).
usage: eval.py <workers> <jobs-per-check> [max-mutants]"""
import json, os, subprocess, sys, shutil, collections, random, threading
HERE = os.path.dirname(os.path.abspath(__file__))
REPO = '/repo'
BASE = 'a6715d3'  # the commit survivors.jsonl was generated from (line numbers)
COST = dict(C01=108, C02=50, C03=15, C04=73, C05=15, C06=15, C07=12, C08=6, C09=12, C10=76, C11=8, C12=102, C13=40, C14=4, C15=3, C16=5, C17=6, C18=3, C19=6, C20=35)
anch = collections.defaultdict(list)
for l in open('/verif/properties.jsonl'):
    p = json.loads(l)
    for f in p['anchors']['files']: anch[f].append(p['id'])
W = int(sys.argv[1]); J = sys.argv[2]; MAX = int(sys.argv[3]) if len(sys.argv) > 3 else 10**9
surv = [json.loads(l) for l in open(os.path.join(HERE, 'survivors.jsonl'))]
key = lambda m: '%s:%d:%s:%s' % (m['file'], m['line'], m['kind'], m['new'])
done = set()
rp = os.path.join(HERE, 'results.jsonl')
if os.path.exists(rp):
    for l in open(rp): done.add(json.loads(l)['key'])
random.Random(7).shuffle(surv)
tri = {}
tp = os.path.join(HERE, 'triage.jsonl')
if os.path.exists(tp):
    for l in open(tp):
        r = json.loads(l); tri[r['key']] = r['ndiff']
    surv = [m for m in surv if tri.get(key(m), 1) != 0]  # observably different mutants only
todo = [m for m in surv if key(m) not in done][:MAX]
print(len(surv), 'survivors,', len(done), 'done,', len(todo), 'to do', flush=True)
os.makedirs('/tmp/mut', exist_ok=True)
lock = threading.Lock()
def worker(w):
    d = f'/tmp/mut/e{w}'; v = f'/tmp/mut/v{w}'
    subprocess.run(['git', '-C', REPO, 'worktree', 'remove', '--force', d], capture_output=True)
    subprocess.check_call(['git', '-C', REPO, 'worktree', 'add', '-q', '--detach', d, BASE])
    shutil.rmtree(v, ignore_errors=True)
    os.makedirs(v)
    for x in ('harness', 'known_findings.json', 'properties.jsonl'):
        s = os.path.join('/verif', x)
        (shutil.copytree if os.path.isdir(s) else shutil.copy)(s, os.path.join(v, x))
    os.makedirs(os.path.join(v, 'bin')); shutil.copy('/verif/bin/sver', os.path.join(v, 'bin', 'sver-mut'))
    os.makedirs(os.path.join(v, 'evidence')); os.makedirs(os.path.join(v, 'replays'))
    env = dict(os.environ, VERIF_DIR=v, VERIF_REPO=d, GOFLAGS='-mod=mod', GOPROXY='off', GOSUMDB='off', GOTOOLCHAIN='local')
    while True:
        with lock:
            if not todo: break
            mu = todo.pop()
        p = os.path.join(d, mu['file'])
        orig = open(p).read(); lines = orig.split('\n'); lines[mu['line'] - 1] = mu['newline']
        open(p, 'w').write('\n'.join(lines))
        props = sorted(anch.get(mu['file'], []) or ['C04'], key=lambda q: COST[q])
        ran = []; caught = None
        for q in props:
            try:
                r = subprocess.run([os.path.join(v, 'bin', 'sver-mut'), 'check', q, '--tier', 'quick', '-j', J], env=env, capture_output=True, text=True, timeout=1500)
                rc = r.returncode
                asserts = sorted(set(l.split('assertion=')[1].split()[0] for l in r.stdout.splitlines() if l.startswith('  violation ') and 'assertion=' in l))[:6]
            except subprocess.TimeoutExpired:
                rc = -1; asserts = []
            ran.append(dict(property=q, exit=rc, assertions=asserts))
            if rc == 1:
                caught = q; break
        open(p, 'w').write(orig)
        for f in os.listdir(os.path.join(v, 'replays')): os.remove(os.path.join(v, 'replays', f))
        res = dict(key=key(mu), file=mu['file'], line=mu['line'], kind=mu['kind'], old=mu['old'], new=mu['new'], caught_by=caught, ran=ran)
        with lock:
            open(rp, 'a').write(json.dumps(res) + '\n')
            print(('CAUGHT %s' % caught) if caught else 'UNCAUGHT', mu['file'], mu['line'], mu['kind'], mu['old'][:50], '->', mu['new'][:50], [(x['property'], x['exit']) for x in ran if x['exit'] != 1], flush=True)
    subprocess.run(['git', '-C', REPO, 'worktree', 'remove', '--force', d], capture_output=True)
    shutil.rmtree(v, ignore_errors=True)
ts = [threading.Thread(target=worker, args=(w,)) for w in range(W)]
[t.start() for t in ts]; [t.join() for t in ts]
subprocess.run(['git', '-C', REPO, 'worktree', 'prune'])
