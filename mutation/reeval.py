#!/usr/bin/env python3
"""Re-runs the quick checks (current /verif/bin/sver) on mutants that were not
caught before, re-applied to the CURRENT /repo HEAD (the mutated line is located
by its text near the recorded line number). Output: reeval.jsonl.
usage: reeval.py <jobs-per-check> [file-filter]"""
import json, os, subprocess, sys, shutil, collections
HERE = os.path.dirname(os.path.abspath(__file__))
COST = dict(C01=108, C02=50, C03=15, C04=73, C05=15, C06=15, C07=12, C08=6, C09=12, C10=76, C11=8, C12=102, C13=40, C14=4, C15=3, C16=5, C17=6, C18=3, C19=6, C20=35)
anch = collections.defaultdict(list)
for l in open('/verif/properties.jsonl'):
    p = json.loads(l)
    for f in p['anchors']['files']: anch[f].append(p['id'])
J = sys.argv[1]; flt = sys.argv[2] if len(sys.argv) > 2 else ''
surv = {}
for l in open(os.path.join(HERE, 'survivors.jsonl')):
    m = json.loads(l); surv['%s:%d:%s:%s' % (m['file'], m['line'], m['kind'], m['new'])] = m
tri = {json.loads(l)['key']: json.loads(l) for l in open(os.path.join(HERE, 'triage.jsonl'))}
res = [json.loads(l) for l in open(os.path.join(HERE, 'results.jsonl'))]
todo = [r for r in res if not r['caught_by'] and tri.get(r['key'], {}).get('ndiff', 1) != 0 and r['file'] != 'msg_sig.go' and flt in r['file']]
print(len(todo), 'uncaught observable mutants to re-evaluate', flush=True)
d = '/tmp/mut/r0'; v = '/tmp/mut/rv'
subprocess.run(['git', '-C', '/repo', 'worktree', 'remove', '--force', d], capture_output=True)
subprocess.check_call(['git', '-C', '/repo', 'worktree', 'add', '-q', '--detach', d, 'HEAD'])
shutil.rmtree(v, ignore_errors=True); os.makedirs(v)
for x in ('harness', 'known_findings.json', 'properties.jsonl'):
    s = os.path.join('/verif', x)
    (shutil.copytree if os.path.isdir(s) else shutil.copy)(s, os.path.join(v, x))
os.makedirs(os.path.join(v, 'bin')); shutil.copy('/verif/bin/sver', os.path.join(v, 'bin', 'sver-mut'))
os.makedirs(os.path.join(v, 'evidence')); os.makedirs(os.path.join(v, 'replays'))
env = dict(os.environ, VERIF_DIR=v, VERIF_REPO=d, GOFLAGS='-mod=mod', GOPROXY='off', GOSUMDB='off', GOTOOLCHAIN='local')
out = open(os.path.join(HERE, 'reeval.jsonl'), 'a')
for r in todo:
    mu = surv[r['key']]
    p = os.path.join(d, mu['file']); orig = open(p).read(); lines = orig.split('\n')
    idx = None
    for delta in range(0, 16):
        for c in (mu['line'] - 1 + delta, mu['line'] - 1 - delta):
            if 0 <= c < len(lines) and lines[c].strip() == mu['old']: idx = c; break
        if idx is not None: break
    if idx is None:
        print('SKIP (line not found)', mu['file'], mu['line'], mu['old'][:50]); continue
    ind = lines[idx][:len(lines[idx]) - len(lines[idx].lstrip())]
    lines[idx] = (ind + mu['newline'].strip()) if mu['newline'] else ''
    open(p, 'w').write('\n'.join(lines))
    b = subprocess.run(['go', 'build', './...'], cwd=d, env=env, capture_output=True)
    caught = None; ran = []
    if b.returncode == 0:
        for q in sorted(anch.get(mu['file'], []) or ['C04'], key=lambda q: COST[q]):
            rr = subprocess.run([os.path.join(v, 'bin', 'sver-mut'), 'check', q, '--tier', 'quick', '-j', J], env=env, capture_output=True, text=True)
            asserts = sorted(set(l.split('assertion=')[1].split()[0] for l in rr.stdout.splitlines() if l.startswith('  violation ') and 'assertion=' in l))[:6]
            ran.append((q, rr.returncode, asserts))
            if rr.returncode == 1: caught = q; break
    open(p, 'w').write(orig)
    for f in os.listdir(os.path.join(v, 'replays')): os.remove(os.path.join(v, 'replays', f))
    out.write(json.dumps(dict(key=r['key'], file=mu['file'], line=mu['line'], old=mu['old'], new=mu['new'], caught_by=caught, ran=ran)) + '\n'); out.flush()
    print(('CAUGHT %s %s' % (caught, ran[-1][2])) if caught else 'UNCAUGHT', mu['file'], mu['line'], mu['kind'], mu['old'][:50], '->', mu['new'][:50], flush=True)
subprocess.run(['git', '-C', '/repo', 'worktree', 'remove', '--force', d], capture_output=True)
shutil.rmtree(v, ignore_errors=True)
