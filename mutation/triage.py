#!/usr/bin/env python3
"""Differential triage of surviving mutants: does the mutant differ observably
(exported API, deterministic pseudo-random input stream) from the original?
Output: triage.jsonl. usage: triage.py <workers> [N]"""
import json, os, subprocess, sys, shutil, threading
HERE = os.path.dirname(os.path.abspath(__file__))
REPO = '/repo'
BASE = 'a6715d3'  # the commit survivors.jsonl was generated from (line numbers)
ENV = dict(os.environ, GOFLAGS='-mod=mod', GOPROXY='off', GOSUMDB='off', GOTOOLCHAIN='local')
W = int(sys.argv[1]); N = sys.argv[2] if len(sys.argv) > 2 else '40000'
surv = [json.loads(l) for l in open(os.path.join(HERE, 'survivors.jsonl'))]
key = lambda m: '%s:%d:%s:%s' % (m['file'], m['line'], m['kind'], m['new'])
os.makedirs('/tmp/mut', exist_ok=True)
def mk(d):
    subprocess.run(['git', '-C', REPO, 'worktree', 'remove', '--force', d], capture_output=True)
    subprocess.check_call(['git', '-C', REPO, 'worktree', 'add', '-q', '--detach', d, BASE])
    shutil.copy(os.path.join(HERE, 'zz_diff_test.go'), d)
def rundiff(d, out):
    try:
        r = subprocess.run(['go', 'test', '-vet=off', '-count=1', '-timeout', '120s', '-run', 'TestDiffDump', '.'], cwd=d, env=dict(ENV, DIFF_OUT=out, DIFF_N=N), capture_output=True, text=True, timeout=300)
        return r.returncode
    except subprocess.TimeoutExpired:
        return -1
mk('/tmp/mut/t-orig'); assert rundiff('/tmp/mut/t-orig', '/tmp/mut/t-orig.txt') == 0
orig = open('/tmp/mut/t-orig.txt').read().split('\n')
todo = list(surv); lock = threading.Lock(); res = []
def worker(w):
    d = f'/tmp/mut/t{w}'; mk(d)
    while True:
        with lock:
            if not todo: break
            mu = todo.pop()
        p = os.path.join(d, mu['file']); o = open(p).read(); ls = o.split('\n'); ls[mu['line'] - 1] = mu['newline']; open(p, 'w').write('\n'.join(ls))
        out = f'/tmp/mut/t{w}.txt'
        if os.path.exists(out): os.remove(out)
        rc = rundiff(d, out)
        open(p, 'w').write(o)
        r = dict(key=key(mu), file=mu['file'], line=mu['line'], kind=mu['kind'], old=mu['old'], new=mu['new'], rc=rc)
        if rc == 0:
            got = open(out).read().split('\n')
            diffs = [i for i, (a, b) in enumerate(zip(orig, got)) if a != b]
            r['ndiff'] = len(diffs); r['first'] = orig[diffs[0]].split()[:2] if diffs else None
            by = {}
            for i in diffs:
                nm = orig[i].split()[1]; by[nm] = by.get(nm, 0) + 1
            r['by_driver'] = by
        else:
            r['ndiff'] = -1
        with lock: res.append(r)
    subprocess.run(['git', '-C', REPO, 'worktree', 'remove', '--force', d], capture_output=True)
ts = [threading.Thread(target=worker, args=(w,)) for w in range(W)]
[t.start() for t in ts]; [t.join() for t in ts]
subprocess.run(['git', '-C', REPO, 'worktree', 'remove', '--force', '/tmp/mut/t-orig'], capture_output=True)
subprocess.run(['git', '-C', REPO, 'worktree', 'prune'])
res.sort(key=lambda r: r['key'])
with open(os.path.join(HERE, 'triage.jsonl'), 'w') as f:
    for r in res: f.write(json.dumps(r) + '\n')
print(len(res), 'mutants;', sum(1 for r in res if r['ndiff'] != 0), 'observably different (or hang/crash);', sum(1 for r in res if r['ndiff'] == 0), 'no difference seen')
