#!/usr/bin/env python3
"""Pass over ALL observably different surviving mutants with the primary
(cheap, most relevant) properties only, on the CURRENT /repo HEAD with the
current /verif/bin/sver. Mutated lines are located by their text near the
recorded line. Output: fast.jsonl. usage: eval_fast.py <workers> <jobs>"""
import json, os, subprocess, sys, shutil, threading
HERE = os.path.dirname(os.path.abspath(__file__))
def primary(f, ln):
    if f == 'sipuri.go':
        if ln < 190: return ['C18', 'C11']
        if ln < 300: return ['C15']
        return ['C14', 'C15', 'C10'] if 400 <= ln <= 430 or 495 <= ln <= 520 or ln >= 655 else ['C14', 'C15']
    return {'parse_params.go': ['C17', 'C02'], 'parse_uri_params.go': ['C17', 'C13', 'C15'], 'parse_uri_hdrs.go': ['C17', 'C13', 'C15'],
            'parse_fline.go': ['C08', 'C03'], 'parse_cseq.go': ['C10', 'C05'], 'parse_clen.go': ['C06', 'C10'], 'parse_callid.go': ['C05', 'C02'],
            'parse_expires.go': ['C10'], 'parse_from.go': ['C09', 'C05'], 'parse_contact.go': ['C09', 'C13'], 'parse_pai.go': ['C09', 'C13'],
            'parse_headers.go': ['C07', 'C16', 'C09', 'C06'], 'parse_msg.go': ['C06', 'C05', 'C13'], 'msg_sig.go': ['C19', 'C20'],
            'ip_prefix.go': ['C20'], 'parse_method.go': ['C16', 'C08'], 'parse_utils.go': ['C07', 'C03'], 'parse_types.go': ['C11', 'C05'], 'hex2i.go': ['C04']}.get(f, ['C04'])
W = int(sys.argv[1]); J = sys.argv[2]
surv = {}
for l in open(os.path.join(HERE, 'survivors.jsonl')):
    m = json.loads(l); surv['%s:%d:%s:%s' % (m['file'], m['line'], m['kind'], m['new'])] = m
tri = {json.loads(l)['key']: json.loads(l) for l in open(os.path.join(HERE, 'triage.jsonl'))}
caught = set()
for l in open(os.path.join(HERE, 'results.jsonl')):
    r = json.loads(l)
    if r['caught_by']: caught.add(r['key'])
fp = os.path.join(HERE, 'fast.jsonl'); done = set()
if os.path.exists(fp):
    for l in open(fp): done.add(json.loads(l)['key'])
todo = [k for k, t in tri.items() if t['ndiff'] != 0 and k not in caught and k not in done]
todo.sort(key=lambda k: (surv[k]['file'] == 'msg_sig.go' and 270 <= surv[k]['line'] <= 470, k))  # char-class statistics last
todo.reverse()
print(len(todo), 'to do', flush=True)
lock = threading.Lock()
def worker(w):
    d = f'/tmp/mut/f{w}'; v = f'/tmp/mut/fv{w}'
    subprocess.run(['git', '-C', '/repo', 'worktree', 'remove', '--force', d], capture_output=True)
    subprocess.check_call(['git', '-C', '/repo', 'worktree', 'add', '-q', '--detach', d, 'HEAD'])
    shutil.rmtree(v, ignore_errors=True); os.makedirs(v)
    for x in ('harness', 'known_findings.json', 'properties.jsonl'):
        s = os.path.join('/verif', x)
        (shutil.copytree if os.path.isdir(s) else shutil.copy)(s, os.path.join(v, x))
    os.makedirs(os.path.join(v, 'bin')); shutil.copy('/verif/bin/sver', os.path.join(v, 'bin', 'sver-mut'))
    os.makedirs(os.path.join(v, 'evidence')); os.makedirs(os.path.join(v, 'replays'))
    env = dict(os.environ, VERIF_DIR=v, VERIF_REPO=d, GOFLAGS='-mod=mod', GOPROXY='off', GOSUMDB='off', GOTOOLCHAIN='local')
    while True:
        with lock:
            if not todo: break
            k = todo.pop()
        mu = surv[k]
        p = os.path.join(d, mu['file']); orig = open(p).read(); lines = orig.split('\n'); idx = None
        for delta in range(0, 16):
            for c in (mu['line'] - 1 + delta, mu['line'] - 1 - delta):
                if 0 <= c < len(lines) and lines[c].strip() == mu['old']: idx = c; break
            if idx is not None: break
        res = dict(key=k, file=mu['file'], line=mu['line'], kind=mu['kind'], old=mu['old'], new=mu['new'], caught_by=None, ran=[])
        if idx is None:
            res['note'] = 'line not found on HEAD'
        else:
            ind = lines[idx][:len(lines[idx]) - len(lines[idx].lstrip())]
            lines[idx] = (ind + mu['newline'].strip()) if mu['newline'] else ''
            open(p, 'w').write('\n'.join(lines))
            if subprocess.run(['go', 'build', './...'], cwd=d, env=env, capture_output=True).returncode != 0:
                res['note'] = 'does not build on HEAD'
            else:
                for q in primary(mu['file'], mu['line']):
                    try:
                        rr = subprocess.run([os.path.join(v, 'bin', 'sver-mut'), 'check', q, '--tier', 'quick', '-j', J], env=env, capture_output=True, text=True, timeout=900)
                        rc = rr.returncode
                        asserts = sorted(set(l.split('assertion=')[1].split()[0] for l in rr.stdout.splitlines() if l.startswith('  violation ') and 'assertion=' in l))[:5]
                    except subprocess.TimeoutExpired:
                        rc, asserts = -1, []
                    res['ran'].append([q, rc, asserts])
                    if rc == 1: res['caught_by'] = q; break
            open(p, 'w').write(orig)
        for f in os.listdir(os.path.join(v, 'replays')): os.remove(os.path.join(v, 'replays', f))
        with lock:
            open(fp, 'a').write(json.dumps(res) + '\n')
            print(('CAUGHT %s' % res['caught_by']) if res['caught_by'] else 'UNCAUGHT', mu['file'], mu['line'], mu['kind'], mu['old'][:50], '->', mu['new'][:40], [(x[0], x[1]) for x in res['ran'] if x[1] != 1], res.get('note', ''), flush=True)
    subprocess.run(['git', '-C', '/repo', 'worktree', 'remove', '--force', d], capture_output=True)
    shutil.rmtree(v, ignore_errors=True)
ts = [threading.Thread(target=worker, args=(w,)) for w in range(W)]
[t.start() for t in ts]; [t.join() for t in ts]
subprocess.run(['git', '-C', '/repo', 'worktree', 'prune'])
