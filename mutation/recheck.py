#!/usr/bin/env python3
"""recheck.py: the mutants that motivated harness additions, re-applied to the
current HEAD and checked with the named property (current bin/sver)."""
import json, os, subprocess, shutil, sys
HERE = os.path.dirname(os.path.abspath(__file__))
LIST = [('parse_params.go', 108, "c < 'Z'", 'C17'), ('parse_params.go', 64, 'c <= 0x21', 'C17'), ('sipuri.go', 553, 'foundUser == true', 'C14'),
        ('sipuri.go', 216, '== 0 ||', 'C15'), ('parse_from.go', 673, '||', 'C09'), ('parse_from.go', 641, '||', 'C09'), ('parse_from.go', 679, '||', 'C09'),
        ('parse_from.go', 698, '&&', 'C10'), ('parse_from.go', 699, 'deleted', 'C10'), ('parse_from.go', 635, 'deleted', 'C10'), ('sipuri.go', 514, '>= 65535', 'C10'),
        ('parse_headers.go', 484, '== hPAI', 'C09'), ('parse_headers.go', 486, 'HNo--', 'C09'), ('parse_uri_hdrs.go', 93, 'vNo--', 'C17'), ('parse_msg.go', 190, 'deleted', 'C06'),
        ('sipuri.go', 435, 'deleted', 'C14')]
surv = [json.loads(l) for l in open(os.path.join(HERE, 'survivors.jsonl'))]
d = '/tmp/mut/c0'; v = '/tmp/mut/cv'
os.makedirs('/tmp/mut', exist_ok=True)
subprocess.run(['git', '-C', '/repo', 'worktree', 'remove', '--force', d], capture_output=True)
subprocess.check_call(['git', '-C', '/repo', 'worktree', 'add', '-q', '--detach', d, 'HEAD'])
shutil.rmtree(v, ignore_errors=True); os.makedirs(v)
for x in ('harness', 'known_findings.json', 'properties.jsonl'):
    s = os.path.join('/verif', x)
    (shutil.copytree if os.path.isdir(s) else shutil.copy)(s, os.path.join(v, x))
os.makedirs(os.path.join(v, 'bin')); shutil.copy('/verif/bin/sver', os.path.join(v, 'bin', 'sver-mut'))
os.makedirs(os.path.join(v, 'evidence')); os.makedirs(os.path.join(v, 'replays'))
env = dict(os.environ, VERIF_DIR=v, VERIF_REPO=d, GOFLAGS='-mod=mod', GOPROXY='off', GOSUMDB='off', GOTOOLCHAIN='local')
for f, ln, sub, prop in LIST:
    ms = [m for m in surv if m['file'] == f and m['line'] == ln and (sub in m['new'])]
    if not ms: print('no such mutant', f, ln, sub); continue
    mu = ms[0]
    p = os.path.join(d, f); orig = open(p).read(); lines = orig.split('\n'); idx = None
    for delta in range(0, 16):
        for c in (ln - 1 + delta, ln - 1 - delta):
            if 0 <= c < len(lines) and lines[c].strip() == mu['old']: idx = c; break
        if idx is not None: break
    if idx is None: print('line not found', f, ln); continue
    ind = lines[idx][:len(lines[idx]) - len(lines[idx].lstrip())]
    lines[idx] = (ind + mu['newline'].strip()) if mu['newline'] else ''
    open(p, 'w').write('\n'.join(lines))
    rr = subprocess.run([os.path.join(v, 'bin', 'sver-mut'), 'check', prop, '--tier', 'quick'], env=env, capture_output=True, text=True)
    asserts = sorted(set(l.split('assertion=')[1].split()[0] for l in rr.stdout.splitlines() if l.startswith('  violation ') and 'assertion=' in l))[:4]
    print(f, ln, mu['old'][:40], '->', mu['new'][:40], '|', prop, 'exit', rr.returncode, asserts, flush=True)
    open(p, 'w').write(orig)
    for x in os.listdir(os.path.join(v, 'replays')): os.remove(os.path.join(v, 'replays', x))
subprocess.run(['git', '-C', '/repo', 'worktree', 'remove', '--force', d], capture_output=True)
shutil.rmtree('/tmp/mut', ignore_errors=True)
