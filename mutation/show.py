#!/usr/bin/env python3
"""show.py <file> <line> [nth]: print original vs mutant dump of the nth (default first) differing iteration."""
import json, os, subprocess, sys, shutil
HERE = os.path.dirname(os.path.abspath(__file__))
BASE = 'a6715d3'
ENV = dict(os.environ, GOFLAGS='-mod=mod', GOPROXY='off', GOSUMDB='off', GOTOOLCHAIN='local')
f, ln = sys.argv[1], int(sys.argv[2]); nth = int(sys.argv[3]) if len(sys.argv) > 3 else 0
mu = [m for m in map(json.loads, open(os.path.join(HERE, 'survivors.jsonl'))) if m['file'] == f and m['line'] == ln]
if len(sys.argv) > 4: mu = [m for m in mu if sys.argv[4] in m['new']]
mu = mu[0]
d = '/tmp/mut/show'
subprocess.run(['git', '-C', '/repo', 'worktree', 'remove', '--force', d], capture_output=True)
subprocess.check_call(['git', '-C', '/repo', 'worktree', 'add', '-q', '--detach', d, BASE])
shutil.copy(os.path.join(HERE, 'zz_diff_test.go'), d)
def run(out, show=None):
    e = dict(ENV, DIFF_OUT=out, DIFF_N='40000')
    if show: e['DIFF_SHOW'] = str(show)
    subprocess.run(['go', 'test', '-vet=off', '-count=1', '-run', 'TestDiffDump', '.'], cwd=d, env=e, capture_output=True, timeout=300)
run('/tmp/mut/s-o.txt')
p = os.path.join(d, mu['file']); o = open(p).read(); ls = o.split('\n'); ls[mu['line'] - 1] = mu['newline']; open(p, 'w').write('\n'.join(ls))
run('/tmp/mut/s-m.txt')
a = open('/tmp/mut/s-o.txt').read().split('\n'); b = open('/tmp/mut/s-m.txt').read().split('\n')
diffs = [x.split()[0] for x, y in zip(a, b) if x != y]
print(mu['old'], '->', mu['new'], ';', len(diffs), 'differing iterations')
it = diffs[nth]
run('/tmp/mut/s-m1.txt', it)
open(p, 'w').write(o)
run('/tmp/mut/s-o1.txt', it)
A = open('/tmp/mut/s-o1.txt').read().split('\n'); B = open('/tmp/mut/s-m1.txt').read().split('\n')
print(A[0][:600])
for x, y in zip(A, B):
    if x != y:
        # print differing part
        i = 0
        while i < min(len(x), len(y)) and x[i] == y[i]: i += 1
        print('ORIG:', x[max(0, i - 120):i + 160]); print('MUT: ', y[max(0, i - 120):i + 160])
subprocess.run(['git', '-C', '/repo', 'worktree', 'remove', '--force', d], capture_output=True)
