package sipsp

// Differential driver used only to TRIAGE mechanical mutants (is the mutant
// observably different from the original through the exported API?). It is
// copied into a scratch worktree, never into /repo. It writes one digest per
// iteration of a deterministic input stream to $DIFF_OUT; two trees are
// compared by comparing those files. DIFF_SHOW=<n> prints iteration n in full.

import (
	"crypto/sha1"
	"fmt"
	"math/rand"
	"os"
	"reflect"
	"strconv"
	"strings"
	"testing"
)

var diffSeeds = []string{
	"INVITE sip:bob@biloxi.example.com SIP/2.0\r\nVia: SIP/2.0/TCP client.atlanta.example.com:5060;branch=z9hG4bK74b43\r\nMax-Forwards: 70\r\nRoute: <sip:ss1.atlanta.example.com;lr>\r\nFrom: Alice <sip:alice@atlanta.example.com>;tag=9fxced76sl\r\nTo: Bob <sip:bob@biloxi.example.com>\r\nCall-ID: 3848276298220188511@atlanta.example.com\r\nCSeq: 1 INVITE\r\nContact: <sip:alice@client.atlanta.example.com;transport=tcp>\r\nContent-Type: application/sdp\r\nContent-Length: 5\r\n\r\nv=0\r\n",
	"SIP/2.0 200 OK\r\nv: SIP/2.0/UDP 10.0.0.1;branch=z9hG4bKabc;received=1.2.3.4\r\nf: \"A. \\\"Q\\\" B\" <sips:a:pw@[::1]:5061;user=phone?h=v>;tag=a6c85cf\r\nt: <tel:+1234>;tag=1\r\ni: f81d4fae-7dec-11d0-a765-00a0c91e6bf6@foo.bar.com\r\nCSeq: 4294967295 REGISTER\r\nm: <sip:a@b>;expires=3600;q=0.7, \"x,y\" <sip:c@d:5070>;expires=10 ,sip:e@f\r\nExpires: 7200\r\nl: 0\r\n\r\n",
	"REGISTER sip:registrar.biloxi.example.com SIP/2.0\r\nVia: SIP/2.0/UDP bobspc.biloxi.example.com:5060;branch=z9hG4bKnashds7\r\nMax-Forwards: 70\r\nTo : Bob <sip:bob@biloxi.example.com>\r\nFrom\t: Bob <sip:bob@biloxi.example.com>;tag=456248\r\nCall-ID: 843817637684230@998sdasdh09\r\nCSeq: 1826 REGISTER\r\nContact: *\r\nExpires: 0\r\nP-Asserted-Identity: \"Cullen\" <sip:fluffy@cisco.com>, <tel:+14085264000>\r\nUser-Agent: x\r\nContent-Length : 0\r\n\r\n",
	"OPTIONS sip:a SIP/2.0\nVia: SIP/2.0/UDP h;branch=z9hG4bK-1\n  ;folded=yes\nf:a;tag=1\nt:b\ni:c\nCSeq:1 OPTIONS\nl:3\n\nabcEXTRA",
	"sip/2.0 486 Busy Here\rVia: SIP/2.0/UDP h\rf:<a>\rt:<b>\ri:1.2.3.4\rCSeq: 2 BYE\r\r",
}

var diffURIs = []string{
	"sip:alice:secret@example.com:5060;transport=tcp;lr?Subject=hello&x=y", "sips:bob@[2001:db8::1]:5061;user=phone", "tel:+1-212-555-0101;ext=1",
	"sip:h", "sip:u;a:b@h;c?d", "SIP:U@H;Transport=TCP;ttl=1;maddr=1.2.3.4;method=INVITE?A=b", "sip:a@b:65535", "sip:a@b:0655351", "sip:+358-555-1234567;postd=pp22@foo.com;user=phone",
}

var diffFrags = []string{";", ":", ",", "\"", "\\", "<", ">", "@", "?", "&", "=", " ", "\t", "\r\n", "\r", "\n", "\r\n ", "*", ".", "0", "9", "255", "256", "4294967295", "4294967296", "16777216", "tag", "expires", "q", "lr", "sip:", "[", "]", "%", "+", "-", "/", "SIP/2.0", "Content-Length", "l", "m", "a"}

func diffMutate(r *rand.Rand, s []byte) []byte {
	b := append([]byte(nil), s...)
	n := r.Intn(4)
	for k := 0; k < n && len(b) > 0; k++ {
		p := r.Intn(len(b))
		switch r.Intn(7) {
		case 0: // insert fragment
			f := diffFrags[r.Intn(len(diffFrags))]
			b = append(b[:p], append([]byte(f), b[p:]...)...)
		case 1: // delete a few bytes
			e := p + 1 + r.Intn(3)
			if e > len(b) {
				e = len(b)
			}
			b = append(b[:p], b[e:]...)
		case 2: // replace a byte by a fragment char
			f := diffFrags[r.Intn(len(diffFrags))]
			b[p] = f[0]
		case 3: // flip case
			c := b[p]
			if (c >= 'a' && c <= 'z') || (c >= 'A' && c <= 'Z') {
				b[p] = c ^ 0x20
			}
		case 4: // duplicate a segment
			e := p + 1 + r.Intn(12)
			if e > len(b) {
				e = len(b)
			}
			seg := append([]byte(nil), b[p:e]...)
			b = append(b[:e], append(seg, b[e:]...)...)
		case 5: // random byte
			b[p] = byte(r.Intn(256))
		case 6: // truncate
			if r.Intn(4) == 0 {
				b = b[:p]
			}
		}
	}
	return b
}

// diffDump prints exported fields only.
func diffDump(sb *strings.Builder, v reflect.Value, depth int) {
	if depth > 6 {
		return
	}
	switch v.Kind() {
	case reflect.Struct:
		sb.WriteByte('{')
		t := v.Type()
		for i := 0; i < v.NumField(); i++ {
			if t.Field(i).PkgPath != "" {
				continue
			}
			sb.WriteString(t.Field(i).Name)
			sb.WriteByte(':')
			diffDump(sb, v.Field(i), depth+1)
			sb.WriteByte(' ')
		}
		sb.WriteByte('}')
	case reflect.Slice:
		if v.Type().Elem().Kind() == reflect.Uint8 {
			fmt.Fprintf(sb, "%q", v.Bytes())
			return
		}
		sb.WriteByte('[')
		for i := 0; i < v.Len() && i < 12; i++ {
			diffDump(sb, v.Index(i), depth+1)
			sb.WriteByte(' ')
		}
		sb.WriteByte(']')
	case reflect.Array:
		sb.WriteByte('[')
		for i := 0; i < v.Len() && i < 12; i++ {
			diffDump(sb, v.Index(i), depth+1)
			sb.WriteByte(' ')
		}
		sb.WriteByte(']')
	case reflect.Ptr, reflect.Interface:
		if v.IsNil() {
			sb.WriteString("nil")
		} else {
			diffDump(sb, v.Elem(), depth+1)
		}
	case reflect.Func, reflect.Chan, reflect.Map, reflect.UnsafePointer:
		sb.WriteString("?")
	default:
		fmt.Fprintf(sb, "%v", v.Interface())
	}
}

func dd(sb *strings.Builder, x interface{}) { diffDump(sb, reflect.ValueOf(x), 0); sb.WriteByte('\n') }

func diffMsg(r *rand.Rand, sb *strings.Builder) {
	in := diffMutate(r, []byte(diffSeeds[r.Intn(len(diffSeeds))]))
	k := 0
	if r.Intn(3) == 0 {
		k = 1 + r.Intn(40)
	}
	buf := append(make([]byte, k), in...)
	for i := 0; i < k; i++ {
		buf[i] = "\r\n x:"[i%5]
	}
	flags := uint8(0)
	if r.Intn(2) == 0 {
		flags = uint8(r.Intn(8))
	}
	var m PSIPMsg
	switch r.Intn(4) {
	case 0:
		m.Init(nil, nil, nil)
	case 1:
		m.Init(nil, make([]Hdr, r.Intn(5)), make([]PFromBody, r.Intn(3)))
	case 2:
		m.Init(nil, make([]Hdr, 12), make([]PFromBody, 4))
	default:
		m.Init(nil, make([]Hdr, 3), nil)
	}
	fmt.Fprintf(sb, "msg k=%d flags=%d in=%q\n", k, flags, in)
	ncuts := r.Intn(4)
	o := k
	var e ErrorHdr = ErrHdrMoreBytes
	last := k
	for c := 0; c <= ncuts && e == ErrHdrMoreBytes; c++ {
		end := len(buf)
		if c < ncuts && flags&SIPMsgNoMoreDataF == 0 {
			end = last + r.Intn(len(buf)-last+1)
		}
		last = end
		o, e = ParseSIPMsg(buf[:end], o, &m, flags)
		fmt.Fprintf(sb, " call end=%d -> %d %d\n", end, o, e)
	}
	dd(sb, m.FL)
	dd(sb, m.PV)
	fmt.Fprintf(sb, "N=%d flags=%x body=%v raw=%d req=%v m=%v parsed=%v\n", m.HL.N, m.HL.PFlags, m.Body, len(m.RawMsg), m.Request(), m.Method(), m.Parsed())
	for i := 0; i < len(m.HL.Hdrs) && i < m.HL.N; i++ {
		dd(sb, m.HL.Hdrs[i])
	}
	for t := HdrNone + 1; t < HdrOther; t++ {
		dd(sb, m.HL.GetHdr(t))
	}
	if e == 0 {
		s, se := GetMsgSig(&m)
		fmt.Fprintf(sb, "sig %s %d\n", s.String(), se)
		dd(sb, s)
	}
	if r.Intn(4) == 0 {
		m.Reset()
		o, e = ParseSIPMsg([]byte(diffSeeds[1]), 0, &m, 0)
		fmt.Fprintf(sb, "after reset %d %d\n", o, e)
		dd(sb, m.PV)
	}
}

func diffURI(r *rand.Rand, sb *strings.Builder) {
	a := diffMutate(r, []byte(diffURIs[r.Intn(len(diffURIs))]))
	b := diffMutate(r, []byte(diffURIs[r.Intn(len(diffURIs))]))
	if r.Intn(2) == 0 {
		b = diffMutate(r, a)
	}
	fmt.Fprintf(sb, "uri %q %q\n", a, b)
	var u1, u2 PsipURI
	e1, o1 := ParseURI(a, &u1)
	e2, o2 := ParseURI(b, &u2)
	fmt.Fprintf(sb, "%d %d %d %d\n", e1, o1, e2, o2)
	dd(sb, u1)
	dd(sb, u2)
	if e1 == 0 && e2 == 0 {
		for _, f := range []URICmpFlags{0, URICmpFlags(r.Intn(64))} {
			fmt.Fprintf(sb, "cmp %d %v %v\n", f, URICmp(&u1, a, &u2, b, f), URICmpShort(&u1, a, &u2, b, f))
		}
		fmt.Fprintf(sb, "flat %q short %v long %v\n", u1.Flat(a), u1.Short(), u1.Long())
		np := PField{Offs: OffsT(r.Intn(300)), Len: OffsT(r.Intn(len(a) + 3))}
		u3 := u1
		ok := u3.AdjustOffs(np)
		fmt.Fprintf(sb, "adj %v %v\n", np, ok)
		dd(sb, u3)
		u3 = u1
		u3.Truncate()
		dd(sb, u3)
	}
	var r1, r2 PsipURI
	ok, er, ix := URIParseCmp(a, b, URICmpFlags(r.Intn(64)), &r1, &r2)
	fmt.Fprintf(sb, "pcmp %v %d %d\n", ok, er, ix)
	ok, er, ix = URIRawCmp(a, b, 0)
	fmt.Fprintf(sb, "rcmp %v %d %d\n", ok, er, ix)
}

func diffParams(r *rand.Rand, sb *strings.Builder) {
	seeds := []string{"transport=tcp;lr;user=phone;x=\"a\\\"b\";ttl=1?h=v", "a=1&b=%20&c&d=\"q\"\r\nX", "tag=abc ; expires = 5;q=0.5,<next>\r\n", "a;b=;c=d\r\n\tfolded;e\r\n\r\n", "maddr=1.2.3.4;method=INVITE;foo"}
	in := diffMutate(r, []byte(seeds[r.Intn(len(seeds))]))
	fl := []POptFlags{POptParamSemiSepF, POptParamSemiSepF | POptTokCommaTermF, POptParamSemiSepF | POptInputEndF, POptTokURIParamF | POptInputEndF, POptTokURIHdrF | POptInputEndF, POptParamSemiSepF | POptTokQmTermF, POptParamSemiSepF | POptTokSpTermF, POptTokURIParamF, POptTokURIHdrF}
	f := fl[r.Intn(len(fl))]
	fmt.Fprintf(sb, "params f=%x %q\n", f, in)
	var p PTokParam
	offs := 0
	cut := len(in)
	if f&POptInputEndF == 0 && r.Intn(2) == 0 {
		cut = r.Intn(len(in) + 1)
	}
	for it := 0; it < 12; it++ {
		o, e := ParseTokenParam(in[:cut], offs, &p, f)
		if e == ErrHdrMoreBytes && cut < len(in) {
			cut = len(in)
			offs = o
			continue
		}
		fmt.Fprintf(sb, " %d %d ", o, e)
		dd(sb, p)
		if e != ErrHdrMoreValues {
			break
		}
		offs = o
		p.Reset()
	}
	var l URIParamsLst
	l.Init(make([]URIParam, r.Intn(4)))
	o, n, e := ParseAllURIParams(in, 0, &l, POptTokURIParamF|POptInputEndF)
	fmt.Fprintf(sb, "all %d %d %d N=%d T=%x more=%v\n", o, n, e, l.N, l.Types, l.More())
	dd(sb, l.Params)
	var h URIHdrsLst
	h.Init(make([]URIHdr, r.Intn(4)))
	o, n, e = ParseAllURIHdrs(in, 0, &h, POptTokURIHdrF|POptInputEndF)
	fmt.Fprintf(sb, "allh %d %d %d N=%d more=%v\n", o, n, e, h.N, h.More())
	dd(sb, h.Hdrs)
	qo, qe := SkipQuoted(in, r.Intn(len(in)+1))
	fmt.Fprintf(sb, "sq %d %d\n", qo, qe)
}

func diffHdr(r *rand.Rand, sb *strings.Builder) {
	seeds := []string{"From: \"A \\\" B\" <sip:a@b;x=y>;tag=t;foo=\"bar\"\r\nX", "Contact: <sip:a@b>;expires=4294967296;q=0.123, c <sip:d>;q=1 , *\r\nX", "m:*\r\nX", "P-Asserted-Identity: a b <sip:c>, <tel:1>\r\nX",
		"CSeq: 0042 INVITE\r\nX", "Call-ID :  abc@1.2.3.4 \r\nX", "Content-Length: 16777216\r\nX", "l:007\r\nX", "Expires: 4294967295\r\nX", "To: sip:bare@h;tag=1\r\n next\r\nX", "Route: <sip:a;lr>,<sip:b>\r\nX", "t: a;tag=b \"Q\" <c>\r\nX", "f: tok tok2 <sip:u>;tag = v\r\nX"}
	in := diffMutate(r, []byte(seeds[r.Intn(len(seeds))]))
	k := r.Intn(3) * 4
	buf := append([]byte("\r\n\r\n\r\n\r\n"[:k]), in...)
	fmt.Fprintf(sb, "hdr k=%d %q\n", k, in)
	var h Hdr
	var pv PHdrVals
	if r.Intn(2) == 0 {
		pv.Init(make([]PFromBody, r.Intn(3)))
	}
	cut := len(buf)
	if r.Intn(2) == 0 {
		cut = k + r.Intn(len(in)+1)
	}
	o, e := ParseHdrLine(buf[:cut], k, &h, &pv)
	if e == ErrHdrMoreBytes && cut < len(buf) {
		fmt.Fprintf(sb, " first %d\n", o)
		o, e = ParseHdrLine(buf, o, &h, &pv)
	}
	fmt.Fprintf(sb, " %d %d\n", o, e)
	dd(sb, h)
	dd(sb, pv)
	fmt.Fprintf(sb, "type %v %v\n", GetHdrType(in[:r.Intn(len(in)+1)]), GetMethodNo(in[:r.Intn(len(in)+1)]))
	var hl HdrLst
	hl.Hdrs = make([]Hdr, r.Intn(4))
	o, e = ParseHeaders(append(buf[:len(buf)-1:len(buf)-1], "\r\n"...), k, &hl, nil)
	fmt.Fprintf(sb, "hdrs %d %d N=%d f=%x\n", o, e, hl.N, hl.PFlags)
	dd(sb, hl.Hdrs)
	var fl PFLine
	o, e = ParseFLine(buf, k, &fl)
	fmt.Fprintf(sb, "fl %d %d\n", o, e)
	dd(sb, fl)
}

func diffIP(r *rand.Rand, sb *strings.Builder) {
	seeds := []string{"call-192.168.100.200@x", "1.2.3.4", "256.1.1.1", "a.b7270.0.0.1 ", "[2001:db8::1]:5", "::ffff:1.2.3.4;", "fe80::a%eth0", "1.2.999.10.20.30", "id-12345678-ABCDEF-0011@host.example.com", "z9hG4bK-524287-1---a1b2c3d4e5f60718", "aGVsbG8gd29ybGQ=", "f81d4fae-7dec-11d0-a765-00a0c91e6bf6"}
	in := diffMutate(r, []byte(seeds[r.Intn(len(seeds))]))
	fmt.Fprintf(sb, "ip %q\n", in)
	var d4 [4]byte
	var d6 [16]byte
	ok, o, e := IP4Prefix(in, d4[:])
	fmt.Fprintf(sb, "p4 %v %d %d %v\n", ok, o, e, d4)
	f, a, l := ContainsIP4(in, d4[:])
	fmt.Fprintf(sb, "c4 %v %d %d %v\n", f, a, l, d4)
	ok, o, e = IP6Prefix(in, d6[:])
	fmt.Fprintf(sb, "p6 %v %d %d %v\n", ok, o, e, d6)
	f, a, l = ContainsIP6(in, d6[:])
	fmt.Fprintf(sb, "c6 %v %d %d %v\n", f, a, l, d6)
	s, fl := GetCallIDSig(in)
	fmt.Fprintf(sb, "cid %v %d\n", s, fl)
	s2, n := GetViaBrSig(in)
	fmt.Fprintf(sb, "via %v %d\n", s2, n)
}

func TestDiffDump(t *testing.T) {
	out := os.Getenv("DIFF_OUT")
	if out == "" {
		t.Skip("DIFF_OUT not set")
	}
	n, _ := strconv.Atoi(os.Getenv("DIFF_N"))
	if n == 0 {
		n = 20000
	}
	show, _ := strconv.Atoi(os.Getenv("DIFF_SHOW"))
	f, err := os.Create(out)
	if err != nil {
		t.Fatal(err)
	}
	defer f.Close()
	drivers := []func(*rand.Rand, *strings.Builder){diffMsg, diffURI, diffParams, diffHdr, diffIP}
	names := []string{"msg", "uri", "params", "hdr", "ip"}
	for it := 1; it <= n; it++ {
		r := rand.New(rand.NewSource(int64(it)))
		var sb strings.Builder
		d := it % len(drivers)
		func() {
			defer func() {
				if p := recover(); p != nil {
					fmt.Fprintf(&sb, "PANIC %v\n", p)
				}
			}()
			drivers[d](r, &sb)
		}()
		if show == it {
			fmt.Fprintf(f, "%s", sb.String())
		} else if show == 0 {
			sum := sha1.Sum([]byte(sb.String()))
			fmt.Fprintf(f, "%d %s %x\n", it, names[d], sum[:6])
		}
	}
}
