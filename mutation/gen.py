#!/usr/bin/env python3
"""Mechanical mutants of /repo's non-test sources that still compile and pass
the existing test suite (2 runs). Output: survivors.jsonl. Scratch copies live
under /tmp/mut and are removed at the end.
usage: gen.py <workers>"""
import json, os, re, subprocess, sys, shutil, random
from concurrent.futures import ThreadPoolExecutor
REPO = '/repo'  # mutants were generated from commit a6715d3 (pin BASE there to regenerate the same list)
ENV = dict(os.environ, GOFLAGS='-mod=mod', GOPROXY='off', GOSUMDB='off', GOTOOLCHAIN='local')
SKIP = {'log_common.go', 'log_debug.go', 'log_nodebug.go', 'sipsp.go', 'parse_errors.go'}
files = sorted(f for f in os.listdir(REPO) if f.endswith('.go') and not f.endswith('_test.go') and f not in SKIP)

def code_part(line):
    # strip // comments (crudely: not inside quotes)
    out, q = [], None
    i = 0
    while i < len(line):
        c = line[i]
        if q:
            out.append(c)
            if c == '\\' and q != '`':
                i += 1
                if i < len(line): out.append(line[i])
            elif c == q: q = None
        else:
            if c in '"\'`': q = c; out.append(c)
            elif line.startswith('//', i): break
            else: out.append(c)
        i += 1
    return ''.join(out)

def mask_strings(code):
    # positions inside string/char literals are masked (not mutated)
    m = [False] * len(code); q = None; i = 0
    while i < len(code):
        c = code[i]
        if q:
            m[i] = True
            if c == '\\' and q != '`': 
                i += 1
                if i < len(code): m[i] = True
            elif c == q: q = None
        elif c in '"\'`': q = c; m[i] = True
        i += 1
    return m

OPS = [
 ('rel', r'<=', '<'), ('rel', r'>=', '>'), ('rel', r'(?<![<\-])<(?![<=\-])', '<='), ('rel', r'(?<![>\-])>(?![>=])', '>='),
 ('eq', r'==', '!='), ('eq', r'!=', '=='),
 ('bool', r'&&', '||'), ('bool', r'\|\|', '&&'),
 ('arith', r'\+ ?1\b', '+ 0'), ('arith', r'- ?1\b', '- 0'), ('arith', r'\+=', '-='), ('arith', r'\+\+', '--'),
 ('const', r'\btrue\b', 'false'), ('const', r'\bfalse\b', 'true'),
 ('arith', r'(?<![+\-=<>!&|*/(,\[:{]) \+ (?![=+])', ' - '),
 ('neg', r'if !', 'if '),
]
muts = []
for f in files:
    lines = open(os.path.join(REPO, f)).read().split('\n')
    incomment = False
    infunc = False
    for ln, line in enumerate(lines):
        s = line.strip()
        if incomment:
            if '*/' in s: incomment = False
            continue
        if s.startswith('/*'):
            if '*/' not in s: incomment = True
            continue
        if s.startswith('//') or not s: continue
        if line.startswith('func '): infunc = True
        if not infunc: continue
        if re.match(r'\s*(Log|DBG|WARN|ERR|BUG|PANIC|fmt\.|panic\()', line): continue
        code = code_part(line)
        m = mask_strings(code)
        for kind, pat, rep in OPS:
            for mt in re.finditer(pat, code):
                if any(m[mt.start():mt.end()]): continue
                new = code[:mt.start()] + rep + code[mt.end():] + line[len(code):]
                muts.append(dict(file=f, line=ln + 1, kind=kind, old=line.strip(), new=new.strip(), newline=new))
        # statement deletion: simple assignments and method calls
        if re.match(r'^\s*[\w.\[\]]+(\.\w+\(.*\)|\s*(=|\+=|-=|\|=)\s*[^=].*)$', code) and not re.search(r':=|^\s*(return|goto|case|default|var|const|type)\b', code) and not code.rstrip().endswith('{'):
            muts.append(dict(file=f, line=ln + 1, kind='del', old=line.strip(), new='(deleted)', newline=''))
random.Random(1).shuffle(muts)
print(len(muts), 'candidate mutants', file=sys.stderr)

W = int(sys.argv[1]) if len(sys.argv) > 1 else 4
LIMIT = int(sys.argv[2]) if len(sys.argv) > 2 else len(muts)
muts = muts[:LIMIT]
os.makedirs('/tmp/mut', exist_ok=True)
work = []
for w in range(W):
    d = f'/tmp/mut/g{w}'
    subprocess.run(['git', '-C', REPO, 'worktree', 'remove', '--force', d], capture_output=True)
    subprocess.check_call(['git', '-C', REPO, 'worktree', 'add', '-q', '--detach', d, 'HEAD'])
    work.append(d)

def run(w, chunk):
    d = work[w]; res = []
    for mu in chunk:
        p = os.path.join(d, mu['file'])
        orig = open(p).read()
        lines = orig.split('\n')
        lines[mu['line'] - 1] = mu['newline']
        open(p, 'w').write('\n'.join(lines))
        ok = True
        try:
            for _ in range(2):
                r = subprocess.run(['go', 'test', '-vet=off', '-count=1', '-timeout', '60s', './...'], cwd=d, env=ENV, capture_output=True, timeout=200)
                if r.returncode != 0: ok = False; break
        except subprocess.TimeoutExpired:
            ok = False
        open(p, 'w').write(orig)
        if ok:
            mu2 = {k: v for k, v in mu.items()}
            res.append(mu2)
            print('survivor', mu['file'], mu['line'], mu['kind'], mu['old'][:60], '->', mu['new'][:60], file=sys.stderr, flush=True)
    return res
chunks = [muts[i::W] for i in range(W)]
out = []
with ThreadPoolExecutor(W) as ex:
    for r in ex.map(lambda a: run(*a), list(enumerate(chunks))): out += r
for d in work:
    subprocess.run(['git', '-C', REPO, 'worktree', 'remove', '--force', d], capture_output=True)
subprocess.run(['git', '-C', REPO, 'worktree', 'prune'])
out.sort(key=lambda m: (m['file'], m['line'], m['kind'], m['new']))
with open(os.path.join(os.path.dirname(os.path.abspath(__file__)), 'survivors.jsonl'), 'w') as f:
    for m in out: f.write(json.dumps(m) + '\n')
print(len(out), 'survivors of', len(muts), file=sys.stderr)
