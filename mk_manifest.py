#!/usr/bin/env python3
# Generates MANIFEST.json from properties.jsonl and the per-property notes below.
import json
props=[json.loads(l) for l in open('/verif/properties.jsonl')]
tech="bounded symbolic execution of the real go/ssa code (own engine `sver`): inputs are symbolic bytes/words, states with identical concrete store are merged, path conditions are exact per-byte value-set cubes + residual bit-vector terms; every assertion / run-time check is an obligation decided by z3 (unsat = holds for all inputs in the bound) and every counterexample is replayed natively"
notes={
 'C01':("self-composition: resumed object vs fresh object (resumption lemma on the complete object state, every cut => every schedule by induction) + all-schedules chain on small windows","3, 4/C01"),
 'C02':("self-composition per exported sub-parser (resumption lemma, every cut; chains; start offsets)","3, 4/C02"),
 'C03':("self-composition: verdict on n-1 bytes vs n bytes (one-byte extension, induction over the suffix)","4/C03"),
 'C04':("implicit run-time-check / unwinding obligations of every executed instruction + offset-sanity assertions on hostile input; store footprint for isolation","4/C04"),
 'C05':("layout assertions (containment, order, nesting) on symbolic windows in message templates","4/C05"),
 'C06':("case-by-case framing assertions against a reference decimal value; pipelining as self-composition","4/C06"),
 'C07':("differential: ParseHeaders vs a non-incremental reference tokeniser executed by the same engine","4/C07"),
 'C08':("differential: ParseFLine vs a non-incremental reference splitter","4/C08"),
 'C09':("values built from shapes with components known by construction (symbolic components + symbolic LWS)","4/C09"),
 'C10':("differential against an exact 64-bit decimal reference for every numeric position, all digit strings up to 21-40 digits","4/C10"),
 'C11':("self-composition: same symbolic text at offset k and at offset 0","4/C11"),
 'C12':("self-composition: used+reset object vs new object, complete state after reset and behaviour on a second symbolic input","4/C12"),
 'C13':("self-composition: small caller arrays vs ample arrays on the same symbolic message","4/C13"),
 'C14':("position-wise reconstruction walk over the reported components on symbolic URIs","4/C14"),
 'C15':("algebraic laws asserted on symbolic URI pairs with symbolic flag sets; precondition decided by the library's own list parsers","4/C15"),
 'C16':("differential against a literal copy of the name table for all names up to 20 bytes","4/C16"),
 'C17':("post-condition oracle on every reported parameter span + completeness of coverage","4/C17"),
 'C18':("fully symbolic 16-bit relocation target (all offset/length pairs) on symbolic accepted URIs","4/C18"),
 'C19':("metamorphic self-composition on messages with symbolic inserted headers, capacities and cuts; String() on all documented-shape signatures","4/C19"),
 'C20':("differential against a non-incremental IPv4 reference on all byte strings up to 8-11 bytes","4/C20"),
}
checks=[]
for p in props:
    pid=p['id']
    n,ref=notes[pid]
    checks.append({
      "property_id":pid,
      "quick_cmd":f"bin/sver check {pid} --tier quick",
      "thorough_cmd":f"bin/sver check {pid} --tier thorough",
      "evidence_file":f"evidence/{pid}.json",
      "replay_cmd_template":"bin/sver replay {path}",
      "engine":"sver",
      "level_claimed":{"category":"model_checking",
        "text":"Bounded symbolic model checking of the real Go code (go/ssa of /repo's working tree, rebuilt on every run): "+n+". An exit 0 means the assertions hold for EVERY input inside the bounds stated in the evidence file (bounds, not samples); nothing is claimed outside them. Counterexamples are solver models replayed against the natively compiled package before being reported.",
        "design_ref":"DESIGN.md section "+ref},
      "level_note":"Trusted base: the sver engine (SSA interpreter, cube path conditions, SMT encoding; validated on every run by replaying solver witnesses natively and comparing the observation logs), z3 5.1.0, the harness and reference functions under /verif/harness, go/ssa. Stubs: logging empty; models for bytes.Equal/IndexByte, strings.Builder, copy/append. Bounded: input sizes as listed in evidence 'bounds'.",
      "technique":tech,
    })
man={
 "version":1,
 "setup_cmd":"cd /verif/sver && GOFLAGS=-mod=mod GOPROXY=off GOSUMDB=off GOTOOLCHAIN=local go build -o ../bin/sver .",
 "hooks":{"guard":"verif","enable":"harness files (/verif/harness/*.go, //go:build verif, package sipsp) are overlaid onto /repo as zz_verif_*.go through go/packages Overlay (engine) and `go test -tags verif -overlay` (native replay); nothing is written into /repo",
   "baseline_off_cmd":"cd /repo && GOFLAGS=-mod=mod GOPROXY=off go test -json -vet=off -count=1 -timeout 25m ./...",
   "source_commits":[],"add_only":True},
 "engines":[{"name":"sver","path":"/verif/sver","serves_properties":[p['id'] for p in props],"kind_free_text":"symbolic executor for go/ssa with state merging + SMT (z3) back end, native replay through go test overlays"}],
 "checks":checks,
 "not_applicable":[],
 "notes":"All 20 properties are claimed with the solver-based technique. Parts outside each claim (input length bounds, thread schedules for C04, finite set of offsets k for C11) are listed per property in DESIGN.md section 5 and in each evidence file ('bounds', 'outside_claim'). known_findings.json records 15 genuine defects found by the checks and repaired by `fix:` commits in /repo (status fixed: they suppress nothing)."
}
json.dump(man,open('/verif/MANIFEST.json','w'),indent=1)
print("ok",len(checks))
