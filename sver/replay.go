package main

// Native replay: runs harnesses against the natively compiled /repo (working
// tree) through `go test -overlay`, nothing is written into /repo.

import (
	"encoding/json"
	"fmt"
	"go/types"
	"os"
	"os/exec"
	"path/filepath"
	"sort"
	"strings"
	"time"

	"golang.org/x/tools/go/ssa"
)

type ReplayIn struct {
	Harness string `json:"harness"`
	Args    []int  `json:"args"`
	Vector  Vector `json:"vector"`
}

type ReplayOut struct {
	Outcome string   `json:"outcome"`
	Failed  []string `json:"failed,omitempty"`
	Panic   string   `json:"panic,omitempty"`
	Log     []string `json:"log"`
}

// dispatchSource generates the harness dispatcher from the SSA package.
func dispatchSource(p *Program) string {
	var sb strings.Builder
	sb.WriteString("//go:build verif\n\npackage sipsp\n\nimport \"fmt\"\n\n")
	// digest of every package-level variable of the library (isolation check)
	var gl []string
	for n, m := range p.Pkg.Members {
		g, ok := m.(*ssa.Global)
		if !ok || strings.Contains(n, "$") || n == "Log" {
			continue
		}
		pos := p.Prog.Fset.Position(g.Pos())
		if strings.Contains(pos.Filename, "zz_verif_") || strings.HasSuffix(pos.Filename, "_test.go") || !pos.IsValid() {
			continue
		}
		gl = append(gl, n)
	}
	sort.Strings(gl)
	sb.WriteString("func vGlobalsDigest() string {\n\treturn fmt.Sprint(")
	for i, n := range gl {
		if i > 0 {
			sb.WriteString(", ")
		}
		sb.WriteString(n)
	}
	sb.WriteString(")\n}\n\n")
	sb.WriteString("func vArgAt(a []int, i int) int {\n\tif i < len(a) {\n\t\treturn a[i]\n\t}\n\treturn 0\n}\n\n")
	sb.WriteString("func vDispatch(name string, a []int) bool {\n\tswitch name {\n")
	var names []string
	for n, m := range p.Pkg.Members {
		if !strings.HasPrefix(n, "H_") {
			continue
		}
		if _, ok := m.Type().(*types.Signature); ok {
			names = append(names, n)
		}
	}
	sort.Strings(names)
	for _, n := range names {
		sig := p.Pkg.Members[n].Type().(*types.Signature)
		okSig := sig.Results().Len() == 0
		for i := 0; i < sig.Params().Len(); i++ {
			if b, ok := sig.Params().At(i).Type().(*types.Basic); !ok || b.Kind() != types.Int {
				okSig = false
			}
		}
		if !okSig {
			continue
		}
		fmt.Fprintf(&sb, "\tcase %q:\n\t\t%s(", n, n)
		for i := 0; i < sig.Params().Len(); i++ {
			if i > 0 {
				sb.WriteString(", ")
			}
			fmt.Fprintf(&sb, "vArgAt(a, %d)", i)
		}
		sb.WriteString(")\n")
	}
	sb.WriteString("\tdefault:\n\t\treturn false\n\t}\n\treturn true\n}\n")
	return sb.String()
}

// NativeReplay runs the given inputs natively. It returns one output per input.
func NativeReplay(p *Program, ins []ReplayIn) ([]ReplayOut, error) {
	if len(ins) == 0 {
		return nil, nil
	}
	tmp, err := os.MkdirTemp("", "sver-replay-")
	if err != nil {
		return nil, err
	}
	defer os.RemoveAll(tmp)
	hdir := filepath.Join(verifDir(), "harness")
	files, _ := filepath.Glob(filepath.Join(hdir, "*.go"))
	repl := map[string]string{}
	for _, f := range files {
		base := filepath.Base(f)
		name := "zz_verif_" + base
		repl[filepath.Join(p.RepoDir, name)] = f
	}
	disp := filepath.Join(tmp, "dispatch_test.go")
	if err := os.WriteFile(disp, []byte(dispatchSource(p)), 0o644); err != nil {
		return nil, err
	}
	repl[filepath.Join(p.RepoDir, "zz_verif_dispatch_test.go")] = disp
	ov, _ := json.Marshal(map[string]interface{}{"Replace": repl})
	ovPath := filepath.Join(tmp, "overlay.json")
	os.WriteFile(ovPath, ov, 0o644)

	var outs []ReplayOut
	rest := ins
	for len(rest) > 0 {
		inPath := filepath.Join(tmp, "in.json")
		outPath := filepath.Join(tmp, "out.json")
		os.Remove(outPath)
		b, _ := json.Marshal(rest)
		os.WriteFile(inPath, b, 0o644)
		cmd := exec.Command("timeout", "600", "go", "test", "-tags", "verif", "-vet=off", "-count=1", "-run", "^TestVerifReplay$", "-overlay", ovPath, ".")
		cmd.Dir = p.RepoDir
		cmd.Env = append(os.Environ(), "GOFLAGS=-mod=mod", "GOPROXY=off", "GOSUMDB=off", "GOTOOLCHAIN=local",
			"VERIF_REPLAY_IN="+inPath, "VERIF_REPLAY_OUT="+outPath)
		t0 := time.Now()
		outb, err := cmd.CombinedOutput()
		_ = t0
		data, rerr := os.ReadFile(outPath)
		if rerr != nil {
			return outs, fmt.Errorf("native replay produced no output (%v): %s", err, string(outb))
		}
		var part []ReplayOut
		if jerr := json.Unmarshal(data, &part); jerr != nil {
			return outs, jerr
		}
		if len(part) == 0 {
			return outs, fmt.Errorf("native replay returned nothing: %s", string(outb))
		}
		outs = append(outs, part...)
		rest = rest[len(part):]
	}
	return outs, nil
}

func logsEqual(pred, native []string) bool {
	if len(pred) != len(native) {
		return false
	}
	for i := range pred {
		if pred[i] != native[i] {
			return false
		}
	}
	return true
}
