package main

// One job = one harness function with concrete arguments, executed
// symbolically; its failures are discharged by the solver.

import (
	"fmt"
	"go/constant"
	"runtime/debug"
	"sort"
	"strings"
	"time"

	"golang.org/x/tools/go/ssa"
)

type JobSpec struct {
	Harness      string `json:"harness"`
	Args         []int  `json:"args"`
	Solver       string `json:"solver,omitempty"`
	CheckComplex bool   `json:"check_complex"`
	TimeoutS     int    `json:"timeout_s,omitempty"`
	Unwind       int    `json:"unwind,omitempty"`
	SecondSolver string `json:"second_solver,omitempty"`
}

func (j JobSpec) String() string {
	s := make([]string, len(j.Args))
	for i, a := range j.Args {
		s[i] = fmt.Sprint(a)
	}
	return j.Harness + "(" + strings.Join(s, ",") + ")"
}

type Vector struct {
	Bytes   []int `json:"bytes"`
	Bools   []int `json:"bools"`
	U8      []int `json:"u8"`
	U16     []int `json:"u16"`
	U32     []int `json:"u32"`
	Choices []int `json:"choices"`
}

type Violation struct {
	ID     string   `json:"id"`
	Kind   string   `json:"kind"`
	Where  string   `json:"where"`
	Detail string   `json:"detail,omitempty"`
	KF     string   `json:"known_finding,omitempty"`
	Vector Vector   `json:"vector"`
	Pred   []string `json:"predicted_log,omitempty"`
	Input  string   `json:"input"`
}

type Witness struct {
	What   string   `json:"what"`
	Vector Vector   `json:"vector"`
	Pred   []string `json:"predicted_log"`
	Input  string   `json:"input"`
}

type JobResult struct {
	Spec                JobSpec               `json:"spec"`
	Status              string                `json:"status"` // ok | violation | inconclusive | error
	Error               string                `json:"error,omitempty"`
	Violations          []Violation           `json:"violations,omitempty"`
	Known               []Violation           `json:"known,omitempty"`
	Witnesses           []Witness             `json:"witnesses,omitempty"`
	Asserts             map[string]AssertStat `json:"asserts"`
	Reach               map[string]string     `json:"reach"`
	Obligations         int                   `json:"obligations"`
	Discharged          int                   `json:"discharged"`
	Inconclusive        int                   `json:"inconclusive"`
	InconclusiveIDs     []string              `json:"inconclusive_ids,omitempty"`
	Stats               Stats                 `json:"stats"`
	Terms               int                   `json:"terms"`
	SolverQ             int                   `json:"solver_queries"`
	SolverMs            float64               `json:"solver_ms"`
	SolverMaxMs         float64               `json:"solver_max_ms"`
	SolverErrors        []string              `json:"solver_errors,omitempty"`
	ExecS               float64               `json:"exec_s"`
	WallS               float64               `json:"wall_s"`
	Funcs               map[string]int        `json:"functions,omitempty"`
	GlobalStores        []string              `json:"global_stores,omitempty"`
	GlobalLoads         []string              `json:"global_loads,omitempty"`
	NVars               int                   `json:"nvars"`
	StaticReach         []string              `json:"static_reach,omitempty"`
	SecondSolverQ       int                   `json:"second_solver_queries,omitempty"`
	SolverDisagreements int                   `json:"solver_disagreements,omitempty"`
	FeasKinds           map[string]int        `json:"feas_kinds,omitempty"`
}

func (e *Engine) vectorOf(model []uint64) Vector {
	var v Vector
	type kv struct {
		idx int
		val int
	}
	byKind := map[string][]kv{}
	for i, vi := range e.ts.Vars {
		var idx int
		fmt.Sscanf(vi.Name[1:], "%d", &idx)
		val := 0
		if i < len(model) {
			val = int(model[i])
		}
		byKind[vi.Kind] = append(byKind[vi.Kind], kv{idx, val})
	}
	fill := func(kind string) []int {
		l := byKind[kind]
		n := 0
		for _, x := range l {
			if x.idx+1 > n {
				n = x.idx + 1
			}
		}
		out := make([]int, n)
		for _, x := range l {
			out[x.idx] = x.val
		}
		return out
	}
	v.Bytes = fill("byte")
	v.Bools = fill("bool")
	v.U8 = fill("u8")
	v.U16 = fill("u16")
	v.U32 = fill("u32")
	v.Choices = fill("choice")
	return v
}

func bytesStr(b []int) string {
	bs := make([]byte, len(b))
	for i, x := range b {
		bs[i] = byte(x)
	}
	return fmt.Sprintf("%q", string(bs))
}

// predictedLog runs the harness in the engine with every nondeterministic
// input fixed to the model (no forking) and returns its observation log: the
// engine's prediction of what the native run prints.
func (e *Engine) predictedLog(model []uint64) []string {
	vec := e.vectorOf(model)
	return concreteLog(e.P, e.spec, vec)
}

func concreteLog(p *Program, spec JobSpec, vec Vector) (log []string) {
	e := NewEngine(p, Config{Unwind: 100000})
	e.conc = &vec
	defer func() {
		if r := recover(); r != nil {
			log = append(e.clog, fmt.Sprintf("engine-error:%v", r))
		}
	}()
	e.InitGlobals()
	fn := p.FindFunc(spec.Harness)
	args := make([]Value, len(spec.Args))
	for i, a := range spec.Args {
		args[i] = Int(uint64(int64(a)))
	}
	e.call(p.Info(fn), e.base.Fork(), args)
	return e.clog
}

func RunJob(p *Program, spec JobSpec, kfAccept map[string]bool) (res *JobResult) {
	t0 := time.Now()
	res = &JobResult{Spec: spec, Asserts: map[string]AssertStat{}, Reach: map[string]string{}}
	unwind := spec.Unwind
	if unwind == 0 {
		unwind = 400
	}
	e := NewEngine(p, Config{Unwind: unwind, CheckComplex: spec.CheckComplex, FeasTimeoutMs: 2000, FinalTimeoutMs: 120000})
	e.spec = spec
	if kfAccept != nil {
		e.kfAccept = kfAccept
	}
	defer func() {
		if r := recover(); r != nil {
			if ee, ok := r.(*EngineError); ok {
				res.Status = "error"
				res.Error = ee.Msg + " [stack " + strings.Join(e.callStk, ">") + "]"
			} else {
				res.Status = "error"
				res.Error = fmt.Sprintf("engine panic: %v\n%s", r, debug.Stack())
			}
		}
		if e.sol != nil {
			e.sol.Close()
		}
		res.WallS = time.Since(t0).Seconds()
	}()
	sol, err := NewSolver(e.ts, spec.Solver, 120000)
	if err != nil {
		res.Status = "error"
		res.Error = "solver: " + err.Error()
		return
	}
	e.sol = sol
	e.InitGlobals()
	fn := p.FindFunc(spec.Harness)
	if fn == nil {
		res.Status = "error"
		res.Error = "no such harness: " + spec.Harness
		return
	}
	args := make([]Value, len(spec.Args))
	for i, a := range spec.Args {
		args[i] = Int(uint64(int64(a)))
	}
	res.StaticReach = staticReach(p, fn)
	st := e.base.Fork()
	te := time.Now()
	_ = e.call(p.Info(fn), st, args)
	res.ExecS = time.Since(te).Seconds()
	res.Stats = e.stats
	res.Terms = e.ts.Size()
	res.NVars = len(e.ts.Vars)

	for k, v := range e.asserts {
		res.Asserts[k] = *v
	}
	res.Funcs = map[string]int{}
	for f, n := range e.entered {
		res.Funcs[f.String()] = n
	}
	for k := range e.gstores {
		res.GlobalStores = append(res.GlobalStores, k)
	}
	sort.Strings(res.GlobalStores)
	for k := range e.loads {
		res.GlobalLoads = append(res.GlobalLoads, k)
	}
	sort.Strings(res.GlobalLoads)

	// discharge obligations: group failures by (id, kind, kf); every group is
	// decided in chunks of cubes (a violating cube makes the group sat)
	type grp struct {
		id, kind, kf string
		viol         []*Term // per cube: cube ∧ ¬cond ∧ ¬known
		known        []*Term // per cube: cube ∧ ¬cond ∧ known
		where        string
		detail       string
		n            int
	}
	groups := map[string]*grp{}
	var order []string
	for _, f := range e.fails {
		key := f.Kind + "|" + f.ID + "|" + f.KFID
		g := groups[key]
		if g == nil {
			g = &grp{id: f.ID, kind: f.Kind, kf: f.KFID, where: f.Where, detail: f.Detail}
			groups[key] = g
			order = append(order, key)
		}
		g.n++
		for _, cb := range f.Snap.cubes {
			bad := e.g.term([]*Cube{cb})
			if f.Extra != nil {
				bad = e.ts.And(bad, f.Extra)
			}
			if f.Cond != nil {
				bad = e.ts.And(bad, e.ts.Not(f.Cond))
			}
			if bad.IsConst() && bad.C == 0 {
				continue
			}
			if f.Known != nil && f.KFID != "" && e.kfAccept[f.KFID] {
				if k := e.ts.And(bad, f.Known); !(k.IsConst() && k.C == 0) {
					g.known = append(g.known, k)
				}
				if v := e.ts.And(bad, e.ts.Not(f.Known)); !(v.IsConst() && v.C == 0) {
					g.viol = append(g.viol, v)
				}
			} else {
				g.viol = append(g.viol, bad)
			}
		}
	}
	sort.Strings(order)
	res.Status = "ok"
	// decide: is any of the terms satisfiable? chunks of 48 terms per query
	decide := func(terms []*Term) (SatResult, []uint64) {
		anyUnknown := false
		for i := 0; i < len(terms); i += 48 {
			j := min(i+48, len(terms))
			q := e.ts.False
			for _, t := range terms[i:j] {
				q = e.ts.Or(q, t)
			}
			r, model := e.sol.CheckOneShot(q, true, e.cfg.FinalTimeoutMs)
			if spec.SecondSolver != "" && r != Unknown {
				// thorough tier: the same query on a second solver must agree
				bin, args := solverCmd(spec.SecondSolver)
				s2 := &Solver{ts: e.ts, bin: bin, args: args}
				r2, _ := s2.CheckOneShot(q, false, 60000)
				res.SecondSolverQ++
				if r2 != Unknown && r2 != r {
					res.SolverDisagreements++
					e.sol.Errors = append(e.sol.Errors, fmt.Sprintf("solver disagreement: %s says %s, %s says %s", e.sol.bin, r, bin, r2))
				}
			}
			if r == Sat {
				return Sat, model
			}
			if r == Unknown && j-i > 1 {
				// retry the members one by one
				for _, t := range terms[i:j] {
					r1, m1 := e.sol.CheckOneShot(t, true, e.cfg.FinalTimeoutMs)
					if r1 == Sat {
						return Sat, m1
					}
					if r1 == Unknown {
						anyUnknown = true
					}
				}
			} else if r == Unknown {
				anyUnknown = true
			}
		}
		if anyUnknown {
			return Unknown, nil
		}
		return Unsat, nil
	}
	for _, key := range order {
		g := groups[key]
		res.Obligations++
		r, model := decide(g.viol)
		switch r {
		case Unsat:
			res.Discharged++
		case Sat:
			res.Discharged++
			vec := e.vectorOf(model)
			res.Violations = append(res.Violations, Violation{ID: g.id, Kind: g.kind, Where: g.where, Detail: g.detail,
				Vector: vec, Pred: e.predictedLog(model), Input: bytesStr(vec.Bytes)})
			res.Status = "violation"
		default:
			res.Inconclusive++
			res.InconclusiveIDs = append(res.InconclusiveIDs, g.id)
			if res.Status == "ok" {
				res.Status = "inconclusive"
			}
		}
		if len(g.known) > 0 {
			res.Obligations++
			r, model := decide(g.known)
			switch r {
			case Sat:
				res.Discharged++
				vec := e.vectorOf(model)
				res.Known = append(res.Known, Violation{ID: g.id, Kind: g.kind, Where: g.where, KF: g.kf,
					Vector: vec, Pred: e.predictedLog(model), Input: bytesStr(vec.Bytes)})
			case Unsat:
				res.Discharged++
			default:
				res.Inconclusive++
				res.InconclusiveIDs = append(res.InconclusiveIDs, g.id)
				if res.Status == "ok" {
					res.Status = "inconclusive"
				}
			}
		}
	}
	// reachability witnesses (vacuity guard) — also used for trace validation
	rkeys := make([]string, 0, len(e.reach))
	for k := range e.reach {
		rkeys = append(rkeys, k)
	}
	sort.Strings(rkeys)
	for _, k := range rkeys {
		// vacuity witness: one feasible cube is enough
		r := Unsat
		var model []uint64
		tried := 0
	search:
		for _, g := range e.reach[k] {
			for _, cb := range g.cubes {
				tried++
				r, model = e.sol.CheckOneShot(e.g.term([]*Cube{cb}), true, 60000)
				if r == Sat || tried > 20 {
					break search
				}
			}
		}
		res.Reach[k] = r.String()
		if r == Sat {
			vec := e.vectorOf(model)
			res.Witnesses = append(res.Witnesses, Witness{What: "reach:" + k, Vector: vec, Pred: e.predictedLog(model), Input: bytesStr(vec.Bytes)})
		}
	}
	res.SolverQ = e.sol.Queries
	res.SolverMs = e.sol.TotalMs
	res.SolverMaxMs = e.sol.MaxMs
	res.SolverErrors = e.sol.Errors
	if len(e.sol.Errors) > 0 && res.Status == "ok" {
		res.Status = "inconclusive"
	}
	return
}

// staticReach lists the ids of all vReach call sites in the harness function
// and in the harness-file functions it (transitively) refers to.
func staticReach(p *Program, root *ssa.Function) []string {
	seen := map[*ssa.Function]bool{}
	ids := map[string]bool{}
	var visit func(f *ssa.Function)
	inHarness := func(f *ssa.Function) bool {
		if f == nil || f.Blocks == nil {
			return false
		}
		pos := p.Prog.Fset.Position(f.Pos())
		return strings.Contains(pos.Filename, "zz_verif_")
	}
	visit = func(f *ssa.Function) {
		if seen[f] || !inHarness(f) {
			return
		}
		seen[f] = true
		for _, b := range f.Blocks {
			for _, in := range b.Instrs {
				var ops []*ssa.Value
				for _, op := range in.Operands(ops) {
					if g, ok := (*op).(*ssa.Function); ok {
						visit(g)
					}
					if mc, ok := (*op).(*ssa.MakeClosure); ok {
						if g, ok := mc.Fn.(*ssa.Function); ok {
							visit(g)
						}
					}
				}
				if c, ok := in.(*ssa.Call); ok {
					if g := c.Call.StaticCallee(); g != nil && g.Name() == "vReach" && len(c.Call.Args) == 1 {
						if k, ok := c.Call.Args[0].(*ssa.Const); ok && k.Value != nil {
							ids[constant.StringVal(k.Value)] = true
						}
					}
				}
			}
		}
		for _, a := range f.AnonFuncs {
			visit(a)
		}
	}
	visit(root)
	var out []string
	for k := range ids {
		out = append(out, k)
	}
	sort.Strings(out)
	return out
}
