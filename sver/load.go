package main

// Loading /repo (with the harness overlay) into go/ssa, and per-function
// static information: dense register numbering, liveness, reverse post-order.

import (
	"fmt"
	"go/types"
	"os"
	"path/filepath"
	"sort"
	"strings"
	"sync"
	"unsafe"

	"golang.org/x/tools/go/packages"
	"golang.org/x/tools/go/ssa"
	"golang.org/x/tools/go/ssa/ssautil"
)

type Program struct {
	Prog    *ssa.Program
	Pkg     *ssa.Package // sipsp
	AllPkgs []*ssa.Package
	fninfo  map[*ssa.Function]*FnInfo
	Lay     Layouts
	Fset    *packages.Package
	RepoDir string
	mu      sync.RWMutex
}

type BlkInfo struct {
	phis    []*ssa.Phi
	first   int   // index of first non-phi instruction
	liveIn  []int // registers live at entry that are not phis of this block
	rpo     int
	npreds  int
	loopHdr bool
}

type FnInfo struct {
	fn     *ssa.Function
	nreg   int
	reg    map[uintptr]int // register index by the address of the ssa value
	blocks []*BlkInfo
	allocs bool
}

// LoadProgram type-checks /repo with the harness files overlaid as
// /repo/zz_verif_*.go (nothing is written into /repo) and builds SSA.
func LoadProgram(repo, harnessDir string, tags string) (*Program, error) {
	overlay := map[string][]byte{}
	if harnessDir != "" {
		files, _ := filepath.Glob(filepath.Join(harnessDir, "*.go"))
		sort.Strings(files)
		for _, f := range files {
			if strings.HasSuffix(f, "_test.go") {
				continue
			}
			b, err := os.ReadFile(f)
			if err != nil {
				return nil, err
			}
			overlay[filepath.Join(repo, "zz_verif_"+filepath.Base(f))] = b
		}
	}
	cfg := &packages.Config{
		Mode:       packages.LoadAllSyntax,
		Dir:        repo,
		Overlay:    overlay,
		BuildFlags: []string{"-tags=" + tags},
		Env:        append(os.Environ(), "GOFLAGS=-mod=mod", "GOPROXY=off", "GOSUMDB=off", "GOTOOLCHAIN=local"),
	}
	pkgs, err := packages.Load(cfg, ".")
	if err != nil {
		return nil, err
	}
	nerr := 0
	var sb strings.Builder
	packages.Visit(pkgs, nil, func(p *packages.Package) {
		for _, e := range p.Errors {
			nerr++
			fmt.Fprintln(&sb, e)
		}
	})
	if nerr > 0 {
		return nil, fmt.Errorf("load errors:\n%s", sb.String())
	}
	prog, spkgs := ssautil.AllPackages(pkgs, ssa.InstantiateGenerics)
	prog.Build()
	p := &Program{Prog: prog, Pkg: spkgs[0], fninfo: map[*ssa.Function]*FnInfo{}, RepoDir: repo, Fset: pkgs[0]}
	p.AllPkgs = prog.AllPackages()
	return p, nil
}

// vkey: the address of the ssa value (interface data word) as a map key.
func vkey(v ssa.Value) uintptr {
	return (*[2]uintptr)(unsafe.Pointer(&v))[1]
}

func isReg(v ssa.Value) bool {
	switch v.(type) {
	case *ssa.Const, *ssa.Global, *ssa.Function, *ssa.Builtin:
		return false
	}
	return true
}

func (p *Program) Info(fn *ssa.Function) *FnInfo {
	p.mu.RLock()
	fi, ok := p.fninfo[fn]
	p.mu.RUnlock()
	if ok {
		return fi
	}
	fi = p.buildInfo(fn)
	p.mu.Lock()
	if old, ok := p.fninfo[fn]; ok {
		fi = old
	} else {
		p.fninfo[fn] = fi
	}
	p.mu.Unlock()
	return fi
}

func (p *Program) buildInfo(fn *ssa.Function) *FnInfo {
	fi := &FnInfo{fn: fn, reg: map[uintptr]int{}}
	add := func(v ssa.Value) {
		if _, ok := fi.reg[vkey(v)]; !ok {
			fi.reg[vkey(v)] = fi.nreg
			fi.nreg++
		}
	}
	for _, v := range fn.Params {
		add(v)
	}
	for _, v := range fn.FreeVars {
		add(v)
	}
	for _, b := range fn.Blocks {
		for _, in := range b.Instrs {
			if v, ok := in.(ssa.Value); ok {
				add(v)
			}
			if _, ok := in.(*ssa.Alloc); ok {
				fi.allocs = true
			}
		}
	}
	nb := len(fn.Blocks)
	fi.blocks = make([]*BlkInfo, nb)
	for i, b := range fn.Blocks {
		bi := &BlkInfo{npreds: len(b.Preds)}
		for j, in := range b.Instrs {
			if ph, ok := in.(*ssa.Phi); ok {
				bi.phis = append(bi.phis, ph)
				bi.first = j + 1
			} else {
				break
			}
		}
		fi.blocks[i] = bi
	}
	// reverse post-order
	seen := make([]bool, nb)
	order := []int{}
	var dfs func(b *ssa.BasicBlock)
	dfs = func(b *ssa.BasicBlock) {
		seen[b.Index] = true
		for _, s := range b.Succs {
			if !seen[s.Index] {
				dfs(s)
			}
		}
		order = append(order, b.Index)
	}
	if nb > 0 {
		dfs(fn.Blocks[0])
	}
	for i, bidx := range order {
		fi.blocks[bidx].rpo = len(order) - 1 - i
	}
	for _, b := range fn.Blocks {
		for _, s := range b.Succs {
			if seen[b.Index] && fi.blocks[s.Index].rpo <= fi.blocks[b.Index].rpo {
				fi.blocks[s.Index].loopHdr = true
			}
		}
	}
	// liveness (registers as bitsets)
	words := (fi.nreg + 63) / 64
	use := make([][]uint64, nb)  // upward-exposed uses (non-phi)
	def := make([][]uint64, nb)  // definitions (incl. phis)
	in := make([][]uint64, nb)   // live-in excluding this block's phis
	phiU := make([][]uint64, nb) // per block: registers used by successors' phis on the edge from this block
	set := func(bs []uint64, i int) { bs[i/64] |= 1 << (uint(i) % 64) }
	has := func(bs []uint64, i int) bool { return bs[i/64]&(1<<(uint(i)%64)) != 0 }
	for i, b := range fn.Blocks {
		use[i] = make([]uint64, words)
		def[i] = make([]uint64, words)
		in[i] = make([]uint64, words)
		phiU[i] = make([]uint64, words)
		var ops []*ssa.Value
		for _, ins := range b.Instrs {
			if _, ok := ins.(*ssa.Phi); !ok {
				ops = ins.Operands(ops[:0])
				for _, op := range ops {
					if *op == nil || !isReg(*op) {
						continue
					}
					r := fi.reg[vkey(*op)]
					if !has(def[i], r) {
						set(use[i], r)
					}
				}
			}
			if v, ok := ins.(ssa.Value); ok {
				set(def[i], fi.reg[vkey(v)])
			}
		}
	}
	for i, b := range fn.Blocks {
		for _, s := range b.Succs {
			// index of b among s.Preds (may occur more than once; all edges carry the same block)
			for pi, pb := range s.Preds {
				if pb != b {
					continue
				}
				for _, ph := range fi.blocks[s.Index].phis {
					e := ph.Edges[pi]
					if isReg(e) {
						set(phiU[i], fi.reg[vkey(e)])
					}
				}
			}
		}
	}
	changed := true
	for changed {
		changed = false
		for i := nb - 1; i >= 0; i-- {
			b := fn.Blocks[i]
			out := make([]uint64, words)
			copy(out, phiU[i])
			for _, s := range b.Succs {
				for w := 0; w < words; w++ {
					out[w] |= in[s.Index][w]
				}
			}
			for w := 0; w < words; w++ {
				n := use[i][w] | (out[w] &^ def[i][w])
				if n != in[i][w] {
					in[i][w] = n
					changed = true
				}
			}
		}
	}
	for i := range fn.Blocks {
		for r := 0; r < fi.nreg; r++ {
			if has(in[i], r) {
				fi.blocks[i].liveIn = append(fi.blocks[i].liveIn, r)
			}
		}
	}
	return fi
}

// FindFunc looks up a package-level function of sipsp by name.
func (p *Program) FindFunc(name string) *ssa.Function {
	return p.Pkg.Func(name)
}

// LookupMethod resolves an interface method call on a concrete dynamic type.
func (p *Program) LookupMethod(t types.Type, m *types.Func) *ssa.Function {
	return p.Prog.LookupMethod(t, m.Pkg(), m.Name())
}
