package main

import (
	"encoding/json"
	"flag"
	"fmt"
	"os"
	"runtime"
	"runtime/debug"
	"runtime/pprof"
	"sort"
	"strconv"
	"strings"
	"time"
)

func parseInts(s string) []int {
	var out []int
	for _, f := range strings.Split(s, ",") {
		f = strings.TrimSpace(f)
		if f == "" {
			continue
		}
		v, err := strconv.Atoi(f)
		if err != nil {
			fmt.Fprintln(os.Stderr, "bad int:", f)
			os.Exit(2)
		}
		out = append(out, v)
	}
	return out
}

func verifDir() string {
	if d := os.Getenv("VERIF_DIR"); d != "" {
		return d
	}
	return "/verif"
}

func repoDir() string {
	if d := os.Getenv("VERIF_REPO"); d != "" {
		return d
	}
	return "/repo"
}

func main() {
	// GC tuning: the executor allocates fast and keeps little; a large GC
	// percentage trades memory for speed, the soft limit keeps one process
	// (with all its parallel jobs) below about a third of a 64 GB machine.
	gcp, lim := 400, int64(20)
	if v, err := strconv.Atoi(os.Getenv("SVER_GOGC")); err == nil && v > 0 {
		gcp = v
	}
	if v, err := strconv.Atoi(os.Getenv("SVER_MEMLIMIT_GB")); err == nil && v > 0 {
		lim = int64(v)
	}
	debug.SetGCPercent(gcp)
	debug.SetMemoryLimit(lim << 30)
	if len(os.Args) < 2 {
		fmt.Fprintln(os.Stderr, "usage: sver job|check|replay|selftest ...")
		os.Exit(2)
	}
	switch os.Args[1] {
	case "job":
		fs := flag.NewFlagSet("job", flag.ExitOnError)
		h := fs.String("h", "", "harness function")
		args := fs.String("args", "", "comma separated int args")
		solver := fs.String("solver", "z3-new", "solver")
		nocheck := fs.Bool("nocomplex", false, "no solver feasibility checks on complex branches")
		verbose := fs.Bool("v", false, "verbose")
		prof := fs.String("cpuprofile", "", "write cpu profile")
		fs.Parse(os.Args[2:])
		if mp := os.Getenv("SVER_MEMPROFILE"); mp != "" {
			defer func() {
				f, _ := os.Create(mp)
				runtime.GC()
				pprof.Lookup("allocs").WriteTo(f, 0)
				f.Close()
			}()
		}
		if *prof != "" {
			f, _ := os.Create(*prof)
			pprof.StartCPUProfile(f)
			defer pprof.StopCPUProfile()
		}
		t0 := time.Now()
		p, err := LoadProgram(repoDir(), verifDir()+"/harness", "verif")
		if err != nil {
			fmt.Fprintln(os.Stderr, err)
			os.Exit(2)
		}
		fmt.Fprintf(os.Stderr, "loaded in %.1fs\n", time.Since(t0).Seconds())
		spec := JobSpec{Harness: *h, Args: parseInts(*args), Solver: *solver, CheckComplex: !*nocheck}
		res := RunJob(p, spec, nil)
		if !*verbose {
			res.Funcs = nil
		}
		out, _ := json.MarshalIndent(res, "", " ")
		fmt.Println(string(out))
	case "check":
		os.Exit(cmdCheck(os.Args[2:]))
	case "bounds":
		defs := checkDefs()
		ids := []string{}
		for k := range defs {
			ids = append(ids, k)
		}
		sort.Strings(ids)
		fmt.Println("| id | jobs quick / thorough | harnesses | bounds (quick; thorough in parentheses) | outside the claim |")
		fmt.Println("|---|---|---|---|---|")
		for _, k := range ids {
			d := defs[k]
			hs := map[string]bool{}
			for _, j := range d.Thorough {
				hs[j.Harness] = true
			}
			var hl []string
			for h := range hs {
				hl = append(hl, "`"+h+"`")
			}
			sort.Strings(hl)
			fmt.Printf("| %s | %d / %d | %s | %s | %s |\n", k, len(d.Quick), len(d.Thorough), strings.Join(hl, " "), d.Bounds, d.Outside)
		}
	case "replay":
		os.Exit(cmdReplay(os.Args[2:]))
	default:
		fmt.Fprintln(os.Stderr, "unknown command", os.Args[1])
		os.Exit(2)
	}
}
