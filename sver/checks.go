package main

// Job tables: which harness runs with which bounds for each property / tier.

func rng(h string, lo, hi int, extra ...int) []JobSpec {
	var out []JobSpec
	for n := lo; n <= hi; n++ {
		a := append([]int{n}, extra...)
		out = append(out, JobSpec{Harness: h, Args: a, CheckComplex: true})
	}
	return out
}

func cat(l ...[]JobSpec) []JobSpec {
	var out []JobSpec
	for _, x := range l {
		out = append(out, x...)
	}
	return out
}

var commonAssume = []string{
	"DBG/WARN/ERR/BUG are empty and DBGon() is false (logging is not the subject); slog is never entered",
	"bytes.Equal, bytes.IndexByte, strings.Builder.WriteByte/String are executed from engine models; everything else in sipsp and bytescase is the real go/ssa code of the working tree",
	"inputs are limited to the stated number of symbolic bytes; longer inputs are outside the claim",
	"the Go runtime's bounds/nil checks are modelled by the engine as proof obligations",
}

func checkDefs() map[string]CheckDef {
	m := map[string]CheckDef{}
	m["C02"] = CheckDef{Property: "C02",
		Quick:    cat(rng("H_C02_cseq", 1, 8)),
		Thorough: cat(rng("H_C02_cseq", 1, 10)),
		Bounds:   "fully symbolic buffers", Assume: commonAssume}
	return m
}
