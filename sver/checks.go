package main

// Job tables: which harness runs with which bounds for each property / tier.

func J(h string, args ...int) JobSpec { return JobSpec{Harness: h, Args: args, CheckComplex: true} }

// each(h, lists...) = cartesian product of argument lists
func each(h string, lists ...[]int) []JobSpec {
	out := []JobSpec{}
	var rec func(i int, cur []int)
	rec = func(i int, cur []int) {
		if i == len(lists) {
			out = append(out, JobSpec{Harness: h, Args: append([]int(nil), cur...), CheckComplex: true})
			return
		}
		for _, v := range lists[i] {
			rec(i+1, append(cur, v))
		}
	}
	rec(0, nil)
	return out
}

func seq(lo, hi int) []int {
	var r []int
	for i := lo; i <= hi; i++ {
		r = append(r, i)
	}
	return r
}

func l(v ...int) []int { return v }

func cat(ls ...[]JobSpec) []JobSpec {
	var out []JobSpec
	for _, x := range ls {
		out = append(out, x...)
	}
	return out
}

var commonAssume = []string{
	"DBG/WARN/ERR/BUG are empty and DBGon() is false (logging is not the subject); slog is never entered",
	"bytes.Equal, bytes.IndexByte, strings.Builder.WriteByte/String, copy and append are executed from engine models; everything else in sipsp and bytescase is the real go/ssa code of /repo's working tree, package init included",
	"inputs are limited to the stated number of symbolic bytes / window sizes; longer inputs are outside the claim",
	"the Go runtime's bounds / nil / division checks and explicit panics are proof obligations of the engine; loops are unwound until no state is left (unwinding assertion at 400 header visits)",
	"branch feasibility: exact per-byte value sets (cubes); multi-byte arithmetic conditions by interval reasoning or the SMT solver; a solver 'unknown' keeps the path (sound); final obligations by a fresh z3 5.1.0 process, 'unknown' = inconclusive (exit 2)",
}

// adapter id groups (see harness/adapters.go: vParserByID)
var (
	idsLoop     = l(0, 1, 2, 3, 4, 22)      // cseq callid uint clen expires skipquoted
	idsNameAddr = l(6, 7, 8, 9, 10, 20, 21) // from to contact pai route one-contact one-pai
	idsHdrLine  = l(11, 12)                 // header line (nil / PHdrVals)
	idsHeaders  = l(13, 14, 15)             // header block caps (2,2) (1,1) (0,0)
	idsLists    = l(16, 17, 18, 19)         // contacts caps 2,1,0; pais
	idsTok      = l(23, 24, 25, 26, 27, 28) // token param flag sets
	idsURILists = l(30, 31, 32, 33, 34, 35, 36)
	idsMsg      = l(40, 41, 42, 43) // message, flags 0..3, default arrays
	idsMsgCaps  = l(44, 45, 46)     // message caps (1,1) (0,0) (2,2)
	tplMsgHdr   = l(1, 2, 3, 4, 5, 6, 7, 8, 9, 10, 12)
	tplBoundary = l(28, 29, 30, 31, 32, 33, 34, 35, 36)
	tplInterior = l(44, 45, 46, 47, 48, 49, 50, 51, 52, 53, 54, 55, 56)
)

func checkDefs() map[string]CheckDef {
	m := map[string]CheckDef{}
	add := func(id string, quick, thorough []JobSpec, bounds, outside string) {
		m[id] = CheckDef{Property: id, Quick: quick, Thorough: cat(quick, thorough), Bounds: bounds, Outside: outside, Assume: commonAssume}
	}

	add("C01",
		cat(each("H_resume", idsMsg, tplMsgHdr, l(4), l(-1)),
			each("H_resume", idsMsgCaps, l(3, 11, 12), l(3), l(-1)),
			each("H_resume", l(40, 41), tplBoundary, l(3), l(-1)),
			each("H_resume", l(45), l(32, 34, 35), l(3), l(-1)),
			each("H_resume", l(40, 41), l(37, 38, 39), l(2), l(-1)),
			each("H_resume", l(41), tplInterior, l(3), l(-1)),
			each("H_resume", l(44, 45), l(44, 45, 52, 53, 55), l(3), l(-1)),
			each("H_resume", l(40, 44, 45), l(13), l(6), l(-1)),
			each("H_resume", l(40, 45), l(14), l(5), l(-1)),
			each("H_chain", l(40, 41), l(13), l(7)), each("H_chainw", l(40, 41, 44), l(1, 3, 9, 29, 31), l(3)),
			each("H_chain_at", l(40), l(51, 56), l(3), l(5, 300)), each("H_chain_at", l(40), l(13), l(5), l(1)),
			each("H_resume", l(40, 41, 44), l(69), l(3), l(-1)), each("H_chain_at", l(40), l(69), l(3), l(0, 4))),
		cat(each("H_resume", idsMsg, tplMsgHdr, l(6), l(-1)),
			each("H_resume", l(40, 41, 44, 45), tplBoundary, l(5), l(-1)),
			each("H_resume", idsMsgCaps, l(3, 4, 11, 12), l(5), l(-1)),
			each("H_resume", l(40, 44, 45, 46), l(13), l(8), l(-1)),
			each("H_chain", l(40, 41, 44), l(13), l(6, 7)), each("H_chain", l(40), l(9), l(3)),
			each("H_chain_at", l(40), l(51, 56), l(4), l(3)), each("H_chain_at", l(41, 44), l(1, 9, 31), l(3), l(2)),
			each("H_resume", l(40), l(0), l(14), l(-1))),
		"ParseSIPMsg resumed vs. one-shot. Resumption lemma (one intermediate cut, EVERY cut position symbolic, complete object state compared while suspended => every chunk schedule by induction) on message templates with one symbolic window W: 11 header kinds (From, To, Contact, PAI, CSeq, Call-ID, Content-Length+body, Expires, generic, reply, 3-header) W=4 (6) x flags 0..3; 9 boundary templates (symbolic header name, inside a folded value, end of first line, end of block, Via+Contact, reply tag, 2nd Contact / PAI value, Route) W=3 (5); 13 interior templates (inside a quoted display name, after a parameter value, parameter name, between CSeq number and method, URI inside <>, method, status code, q value, star contact, end of a reply line) W=3; limit numbers (Content-Length / CSeq / Expires whose last 2 digits are symbolic around 2^24 / 2^32); capacities default,(1,1),(0,0),(2,2); fully symbolic header block of 5-6 (8) bytes after `A B C CRLF`; all-schedules chains: full 14-byte message, and cuts anywhere in/after the window of 5 templates W=3; all schedules of two reply templates placed at offset 5 / 300; a reply whose version token is symbolic (any letter case)",
		"buffers beyond the windows; flags changing between calls; SIPMsgNoMoreDataF (documented end-of-input mode); > 65535 bytes")

	add("C02",
		cat(each("H_resume", idsLoop, l(0), l(10), l(-1)),
			each("H_resume", idsNameAddr, l(0), l(8), l(-1)),
			each("H_resume", idsHdrLine, l(0), l(8), l(-1)),
			each("H_resume", idsHeaders, l(0), l(7), l(-1)),
			each("H_resume", idsLists, l(0), l(7), l(-1)),
			each("H_resume", idsTok, l(0), l(8), l(-1)),
			each("H_resume", idsURILists, l(0), l(7), l(-1)),
			each("H_resume", l(6, 8, 9, 16, 19), l(58, 59, 60, 61, 62), l(3), l(-1)),
			each("H_resume", l(5), l(23, 24, 25), l(5), l(-1)),
			each("H_resume", l(5), l(26, 27, 57), l(4), l(-1)),
			each("H_resume_at", l(0, 2, 6, 11, 23, 30), l(6), l(1, 2)),
			each("H_chain_at", l(5), l(24, 25), l(4), l(3, 300)), each("H_chain_at", l(5, 11), l(0), l(6), l(2)),
			each("H_resume", l(5), l(70), l(3), l(-1)), each("H_chain_at", l(5), l(70), l(3), l(2)),
			each("H_chain", l(0, 1, 2, 6, 8, 11, 23, 30, 34), l(0), l(5)),
			each("H_resume", l(8, 16, 19), l(18, 19), l(4), l(-1)),
			each("H_resume", l(12, 14), l(40, 41, 42, 43), l(2), l(-1))),
		cat(each("H_resume", idsLoop, l(0), l(13), l(-1)),
			each("H_resume", idsNameAddr, l(0), l(10), l(-1)),
			each("H_resume", idsHdrLine, l(0), l(10), l(-1)),
			each("H_resume", idsHeaders, l(0), l(9), l(-1)),
			each("H_resume", idsLists, l(0), l(9), l(-1)),
			each("H_resume", idsTok, l(0), l(10), l(-1)),
			each("H_resume", idsURILists, l(0), l(9), l(-1)),
			each("H_resume", l(5), l(0), l(15), l(-1)),
			each("H_chain", l(0, 1, 2, 6, 8, 11, 13, 16, 23, 30, 34), l(0), l(7))),
		"every exported incremental sub-parser: resumption lemma with every cut position on fully symbolic buffers: CSeq/Call-ID/UInt/CLen/Expires/SkipQuoted 10 (13) bytes, name-addr (From, To, Contact, PAI, Route, one-contact, one-PAI) 8 (10), header line 8 (10), header block caps {2,1,0} 7 (9), contact/PAI lists 7 (9), token param (6 flag sets) 8 (10), URI param/header lists caps {2,1,0} 7 (9), name-addr interior templates, first line on templates; start offsets 1 and 2; all-schedules chain at 5 (7) bytes; all schedules of first-line templates placed at offsets 3 / 300",
		"POptInputEndF (documented end-of-input mode) is exercised separately in C17; longer inputs")

	add("C03",
		cat(each("H_premature", idsLoop, l(0), l(11)),
			each("H_premature", idsNameAddr, l(0), l(9)),
			each("H_premature", idsHdrLine, l(0), l(9)),
			each("H_premature", idsHeaders, l(0), l(8)),
			each("H_premature", idsLists, l(0), l(8)),
			each("H_premature", idsTok, l(0), l(9)),
			each("H_premature", idsURILists, l(0), l(8)),
			each("H_premature", l(6, 8, 9, 16, 19), l(58, 59, 60, 61, 62), l(4)),
			each("H_premature", l(5), l(23, 24, 25, 26), l(5)),
			each("H_premature", l(5), l(0), l(15)),
			each("H_premature", l(41, 42, 43), tplMsgHdr, l(4)),
			each("H_premature", l(41, 43), l(13), l(7)),
			each("H_premature", l(41), tplBoundary, l(4)),
			each("H_premature", l(40, 42), l(7, 22, 63), l(3)), each("H_premature", l(40), l(37), l(2)),
			each("H_premature", l(41), l(37, 38, 39), l(2)), each("H_premature", l(41), tplInterior, l(4)), each("H_premature", l(12), l(40, 41, 42, 43), l(2)),
			each("H_premature_at", l(5), l(24, 25, 70), l(4), l(10, 300)), each("H_premature_at", l(5), l(0), l(12), l(10)),
			each("H_premature_at", l(41, 42), l(10, 51, 56, 69), l(3), l(6)), each("H_premature_at", l(40), l(7), l(3), l(6)), each("H_premature_at", l(11, 12), l(15, 16, 17), l(3), l(2)),
			each("H_premature_at", l(6, 8, 9, 16, 19), l(58, 60, 62), l(3), l(7))),
		cat(each("H_premature", idsLoop, l(0), l(14)),
			each("H_premature", idsNameAddr, l(0), l(11)),
			each("H_premature", idsHdrLine, l(0), l(11)),
			each("H_premature", idsHeaders, l(0), l(10)),
			each("H_premature", idsLists, l(0), l(10)),
			each("H_premature", idsTok, l(0), l(11)),
			each("H_premature", idsURILists, l(0), l(10)),
			each("H_premature", l(41, 42, 43), tplMsgHdr, l(6))),
		"every streaming parser: a definitive verdict on the first n-1 bytes vs. the verdict and values on n bytes (one-byte extension; any suffix follows by induction inside the bound): fully symbolic n = 8-11 (10-14) bytes for all 36 sub-parser adapters, name-addr interior templates, first line 15 bytes and templates; message parser with flags skip-body / clen-required (and flags 0 on templates that carry Content-Length) on header, boundary, interior and limit-number templates W=2-4 (6); every prefix of first-line, header-line, name-addr and message templates placed at a non-zero offset (6..300)",
		"message parser without Content-Length and without skip-body/clen-required (documented exemption: the body is the rest of the buffer); SIPMsgNoMoreDataF, POptInputEndF")

	add("C04",
		cat(each("H_C04_parse", l(0, 1, 2, 3, 4, 6, 8, 9, 11, 12, 13, 15, 16, 18, 19, 20, 21, 22, 23, 25, 26, 27, 30, 32, 33, 34, 36), l(6)),
			each("H_C04_parse", l(5), l(15)),
			each("H_C04_parse", l(40, 43, 45), l(8)),
			each("H_C04_msg", l(1, 3, 4, 9, 11), l(3), l(-1, 0, 1), l(-1, 0, 1)),
			each("H_C04_msg", l(13), l(5), l(-1, 0), l(-1, 0)),
			each("H_C04_msg", tplBoundary, l(3), l(-1, 0), l(0)), each("H_C04_msg", tplInterior, l(3), l(-1), l(0)),
			each("H_C04_msg", l(0), l(10), l(-1), l(-1)),
			each("H_C04_msg_at", l(7, 21, 22, 37, 63), l(2), l(0, 1, 5)), each("H_C04_msg_at", l(1, 3, 9, 13), l(3), l(3)),
			each("H_C04_lookup", seq(0, 6)), each("H_C04_lookup", l(9, 12, 14, 19, 20)),
			each("H_C04_enums"),
			each("H_C04_api", l(0), l(15)), each("H_C04_api", l(1, 2, 3, 4, 5, 7), l(6)), each("H_C04_api", l(6), l(8)), each("H_C04_api", l(8), l(3)),
			each("H_C04_uri", l(3, 4), l(2)),
			each("H_C04_ip", l(5, 7), l(-1, 0, 3, 4, 16, 20)),
			each("H_C04_sig", seq(0, 4))),
		cat(each("H_C04_parse", l(0, 1, 2, 3, 6, 8, 9, 11, 12, 13, 15, 16, 18, 19, 20, 21, 22, 23, 25, 26, 27, 30, 32, 33, 34, 36), l(8)), each("H_C04_parse", l(0, 1, 2, 6, 8, 11, 22, 23), l(9)),
			each("H_C04_msg", l(1, 3, 4, 9, 11), l(5), l(-1, 0, 1), l(-1, 0, 1)),
			each("H_C04_uri", l(5), l(3)),
			each("H_C04_ip", l(9), l(-1, 4, 16)),
			each("H_C04_sig", l(5))),
		"every exported parse / lookup / compare / relocate / signature / accessor entry point (a job fails if an exported function of the package is entered by no C04 job): fully symbolic 6-8 (9) bytes, every start offset 0..n symbolic, capacities none/0/1, symbolic flags, one symbolic cut, message templates incl. bodies at offsets k in {0,1,3,5} in a buffer without spare capacity: no panic (all run-time checks are obligations), termination (unwinding assertion), returned offsets inside the buffer and not before the start unless error, every reported field dereferencable after any verdict; lookups on names of length 0..20; all enum values. Isolation: every store to package-level state (globals and everything allocated by init) outside init is an obligation of every job of every check, confirmed natively by a digest of all package-level variables",
		"actual thread schedules / the race detector (no concurrency in the engine: isolation is argued from the recorded store footprint); inputs longer than the bound")

	add("C05",
		cat(each("H_C05", l(1, 2, 3, 4, 5, 6, 7, 8, 9, 10, 11, 12), l(4), l(0)),
			each("H_C05", l(13), l(7), l(0, 1)),
			each("H_C05", l(14, 16), l(5), l(0)),
			each("H_C05", tplBoundary, l(4), l(0)), each("H_C05", tplInterior, l(4), l(0)),
			each("H_C05_chunk", l(1, 3, 5, 11, 12, 29, 32, 34, 35, 44, 46, 49, 52), l(3)),
			each("H_C05_at", l(7, 10, 12, 33, 55), l(3), l(2, 300)), each("H_C05_at", l(1, 3, 5, 9, 56), l(3), l(7)),
			each("H_C05_cap", l(71), l(3), l(8, 2, 0), l(0, 1, 2, 4)), each("H_C05_cap", l(11, 34), l(3), l(8), l(0, 1))),
		cat(each("H_C05", l(1, 2, 3, 4, 5, 6, 7, 8, 9, 10, 11, 12), l(6), l(0, 1, 2)), each("H_C05", l(1, 3, 4, 9, 11), l(7), l(0)),
			each("H_C05", tplBoundary, l(6), l(0)), each("H_C05", tplInterior, l(6), l(0)), each("H_C05_chunk", l(1, 3, 11, 44, 46, 49, 52), l(5)),
			each("H_C05", l(13), l(9, 10), l(0))),
		"ParseSIPMsg one-shot on 12 header templates W=4 (6-7), 9 boundary and 13 interior templates W=4 (6), repeated Contact headers, fully symbolic 7 (10)-byte header block; the same layout facts on an object resumed at one symbolic cut (13 templates W=3 (5)): containment, first-line order, header order / own-line / trimming, nesting of From/To/CSeq/Call-ID/Contact/PAI sub-fields, body and raw-message extents; the same for messages at offsets 2, 7, 300 under all 8 flag sets (symbolic), one-shot or resumed at a symbolic cut; caller arrays of 0-8 headers / 0-4 contacts on a message with three Contact headers (first / last value read through GetContact when they did not fit)",
		"schedules of more than two pieces are covered through C01 (same observables); longer messages")

	add("C06",
		cat(each("H_C06_clen", seq(1, 3), seq(0, 3)), each("H_C06_clen", l(7, 8, 9, 10), l(0, 1)),
			each("H_C06_noclen", seq(0, 3)),
			each("H_C06_clen_at", l(1, 2), seq(0, 3), l(1, 300)), each("H_C06_clen_at", l(3, 8), l(2), l(2, 70)),
			each("H_C06_clen_chunk", l(1, 2), l(1, 3), l(0, 5), l(1, 2, 3)), each("H_C06_clen_chunk", l(3), l(2), l(0), l(1, 2)), each("H_C06_clen_chunk", l(8), l(1), l(2), l(1)),
			each("H_C06_pipe", l(2, 3), l(2), l(0, 2)), each("H_C06_pipe3", l(2, 3), l(0, 1, 300))),
		cat(each("H_C06_clen", seq(1, 3), seq(4, 8)), each("H_C06_clen", l(4, 5, 6, 11, 12), l(0, 2)),
			each("H_C06_clen_at", seq(1, 3), seq(0, 8), l(3, 47, 4096)), each("H_C06_clen_chunk", l(1, 2, 3, 8, 10), l(0, 2, 4), l(0, 9), l(1, 2, 3)),
			each("H_C06_pipe", l(4), l(3), l(0, 1, 3))),
		"skeleton request with Content-Length of 1-10 (12) symbolic digits and 0-3 (8) body bytes, all 8 flag combinations symbolic, the message at offset 0 and at offsets 1, 2, 70, 300 (3, 47, 4096); the header spelled `Content-Length :`, `l HT SP:` or in upper case with the message delivered in two pieces (every cut); no-Content-Length variants; two and three pipelined messages (request with body, reply, request) with symbolic header-value windows, the first at offset 0, 1, 300",
		"header blocks other than the skeleton; more than two pipelined messages")

	add("C07",
		cat(each("H_C07", l(0), l(8), l(0, 1, 2)), each("H_C07", l(0), l(9), l(0)), each("H_C07", l(0), seq(3, 7), l(2)), each("H_C07", l(15, 16, 17), l(4), l(0, 1, 3)),
			each("H_C07_at", l(0), l(7), l(0, 1, 2), l(1)), each("H_C07_at", l(15, 16, 17), l(4), l(1, 3), l(2, 300))),
		cat(each("H_C07_at", l(0), l(8, 9), l(1, 2), l(3)), each("H_C07_at", l(15, 16, 17), l(6), l(0, 2), l(1, 4096)),
			each("H_C07", l(0), l(9, 10, 11), l(0, 2)), each("H_C07", l(0), l(12), l(1)), each("H_C07", l(15, 16, 17), l(6, 8), l(1, 3))),
		"ParseHeaders (no header-specific value parsers) vs. a non-incremental reference tokeniser on fully symbolic blocks of 3-9 (12) bytes and on templates with known header names, capacities 0..3: count, name/value spans, type = literal-table classification, type flags, first-of-type; the same with the block at a non-zero offset and delivered in two pieces (every cut)",
		"blocks longer than the bound; more than 6 headers per block; header-specific value rewriting (C05/C09)")

	add("C08",
		cat(each("H_C08", l(0), l(14, 15, 16)), each("H_C08", l(23), l(9)), each("H_C08", l(24, 25), l(6)), each("H_C08", l(26, 27), l(4)),
			each("H_C08_at", l(24, 25), l(6), l(3, 300)), each("H_C08_at", l(23), l(6), l(1)), each("H_C08_at", l(26, 27), l(4), l(20)), each("H_C08_at", l(0), l(14, 16), l(1))),
		cat(each("H_C08", l(0), l(17, 18, 19, 20)), each("H_C08", l(24, 25), l(8, 10)), each("H_C08", l(23), l(10)),
			each("H_C08_at", l(24, 25), l(8), l(1, 14, 4096)), each("H_C08_at", l(0), l(16), l(2, 13))),
		"ParseFLine vs. a non-incremental reference on fully symbolic lines of 14-16 (20) bytes and templates: 9 symbolic method bytes, symbolic status/reason, symbolic URI/version; the same with the line at a non-zero offset and delivered in two pieces (every cut; fully symbolic lines of 14 and 16 bytes, so that a cut behind the 14-byte look-ahead exists)",
		"lines longer than the bound")

	add("C09",
		cat(each("H_C09_shape", l(1, 2, 8, 13), l(0), l(0, 1, 2, 3, 4, 5, 7, 8, 9, 10, 11), l(2)),
			each("H_C09_shape", l(8), l(0, 1), l(6), l(0)),
			each("H_C09_shape", l(1, 2, 8, 13), l(1), l(0, 1, 3, 5), l(2)),
			each("H_C09_shape", l(1, 8), l(2, 3), l(0, 2, 3, 4, 5, 7, 8, 9, 11), l(2)), each("H_C09_shape", l(2, 13), l(2, 3), l(0, 3, 5, 8), l(2)),
			each("H_C09_shape", l(8), l(2, 3), l(6), l(0)),
			each("H_C09_shape", l(1, 2, 8, 13), l(0, 1, 2, 3), l(12), l(2)), each("H_C09_shape", l(1, 2, 8, 13), l(0, 1, 2, 3), l(13), l(1, 2)),
			each("H_C09_list", l(0), l(0, 1, 2, 3), l(1)), each("H_C09_list", l(1), l(0), l(1)),
			each("H_C09_hdrs", l(1, 2)), each("H_C09_minmax", l(1, 2, 3))),
		cat(each("H_C09_shape", l(1, 2, 8, 13), l(0), l(0, 1, 2, 3, 4, 5, 7, 8, 9, 10, 11), l(4, 5)),
			each("H_C09_shape", l(8), l(2, 3), l(1, 10), l(2)), each("H_C09_shape", l(1, 13), l(2, 3), l(0, 2, 3, 4, 5, 7, 8, 11), l(3)),
			each("H_C09_list", l(0), l(0, 2), l(3)), each("H_C09_hdrs", l(5))),
		"From/To/Contact/PAI values built from 14 shapes (angle / quoted name / token name / bare URI / expires+q / lr / star / quoted tag / two-token name / escaped quoted name with fold / bare URI with LWS and 3 parameters / expires+tag+valueless / other parameters whose symbolic names have the lengths of q, lr, tag, expires / a valueless lr followed by LWS and further parameters, bare and bracketed) with class-constrained symbolic components of 2 (4-5) bytes, parameter names in symbolic letter case and symbolic optional LWS (none, SP, HT, fold) at the legal places, directly and through ParseHdrLine (kind of header), also at a non-zero offset and delivered in two pieces (every cut); 3-value lists with commas inside quotes and <> incl. exact spans; min / max expires and counts over two Contact headers + Expires through ParseHeaders with capacities 0..2",
		"values outside the shapes; whitespace inside <>; more than 3 values")

	add("C10",
		cat(each("H_C10_cseq", seq(1, 21)), each("H_C10_uint", l(0, 1), seq(1, 21)), each("H_C10_status"),
			each("H_C10_cexp", seq(1, 24)), each("H_C10_q", seq(0, 5)), each("H_C10_port", l(0, 1, 2, 3, 4, 5, 6, 7, 8), seq(1, 8)), each("H_C10_port", l(0, 4), seq(9, 22)),
			each("H_C10_hdr", l(0, 1, 2), seq(1, 12)), each("H_C10_cexp_tok", l(0), seq(1, 6)), each("H_C10_cexp_tok", l(1), seq(1, 4)), each("H_C10_qint", seq(1, 20))),
		cat(each("H_C10_hdr", l(0, 1, 2), seq(13, 24)), each("H_C10_cexp_tok", l(0), seq(7, 12)), each("H_C10_qint", seq(21, 24)), each("H_C10_cseq", seq(22, 40)), each("H_C10_uint", l(0), seq(22, 36)), each("H_C10_uint", l(1), seq(22, 40)), each("H_C10_cexp", seq(25, 32)), each("H_C10_port", l(0, 1, 3), seq(23, 40)), each("H_C10_port", l(6, 8), seq(9, 22))),
		"every numeric position with all digit strings of length 1..21/24 (40; Expires 36 and Contact expires 32 - the obligations for longer strings time out in z3 and are not claimed): CSeq, Expires, Content-Length, reply status, Contact expires (saturation), q (6 shapes; integer part of 1..20 (24) digits incl. leading zeros and values beyond 2^64), URI port (9 carriers: with / without user, symbolic passwords before the host, bracketed host, followed by end / parameters / headers); Expires / Content-Length / CSeq header lines of 1..12 (24) digits through ParseHdrLine delivered in two pieces (every cut); Contact expires / q values that are arbitrary alphanumeric tokens of 1..6 (12) bytes (a number only for digit strings); reference = exact 64-bit decimal value of the last 19 digits + leading-zero test",
		"digit strings longer than 40; chunk schedules of more than two pieces are covered by C02")

	add("C11",
		cat(each("H_offset", l(0, 1, 2, 3, 6, 8, 11, 12, 13, 16, 19, 22, 23, 25, 30, 34), l(0), l(5), l(1, 3, 255, 256, 65530)),
			each("H_offset", l(6, 12, 13, 16, 23, 30), l(0), l(4), l(2, 7, 8, 15, 16, 31, 32, 63, 64, 127, 128, 511, 512, 1023, 1024, 4095, 4096, 32767, 32768, 65531)),
			each("H_offset", l(5), l(24, 25), l(4), l(1, 256, 65500)),
			each("H_offset", l(5), l(0), l(8, 10, 13, 14), l(1, 5, 14, 300)),
			each("H_offset", l(40, 43), l(0), l(9, 12), l(2, 14, 256)),
			each("H_offset", l(40, 41), l(1, 3, 5, 9), l(3), l(1, 255, 256, 65480)),
			each("H_offset", l(40, 42), l(7, 21, 22), l(2), l(1, 3, 256)),
			each("H_offset", l(41), tplBoundary, l(3), l(2, 256)),
			each("H_C11_reloc", l(0), seq(1, 7)), each("H_C11_reloc", l(1, 2), seq(1, 5))),
		cat(each("H_offset", l(0, 1, 2, 3, 6, 8, 11, 12, 13, 16, 19, 22, 23, 25, 30, 34), l(0), l(7), l(2, 257, 4096, 65528)), each("H_offset", l(0, 1, 2, 6, 8, 11, 23), l(0), l(8), l(3, 256)),
			each("H_offset", l(40, 41), l(1, 3, 5, 9), l(5), l(7, 257, 65478))),
		"same text at offset k vs. offset 0 for the message parser and every stand-alone parser: contents fully symbolic (4-5 (7-8) bytes, first lines shorter than the 14-byte look-ahead, templates incl. Content-Length + body), the two bytes before the text symbolic, k in {1,2,3,7,8,15,16,31,32,63,64,127,128,255,256,257,511,512,1023,1024,4095,4096,32767,32768, 65535-len-..} (every power-of-two boundary and the addressing limit); relocation (AdjustOffs) of every accepted URI of scheme + 1..7 symbolic bytes onto a span of its own length at EVERY 16-bit offset k (symbolic): all components shifted by k, numbers unchanged",
		"for the parsers k is a finite set, not every value 1..65535-len (universal over contents only); relocation onto spans other than the text length is C18")

	add("C12",
		cat(each("H_reset", l(0, 1, 2, 6, 8, 22, 23), l(0), l(6), l(0), l(6)),
			each("H_reset", l(11, 12, 13, 14, 15), l(0), l(6), l(0), l(5)),
			each("H_reset", l(16, 17, 18, 19), l(0), l(6), l(0), l(5)),
			each("H_reset", l(30, 31, 32, 34, 35, 36), l(0), l(6), l(0), l(5)),
			each("H_reset", l(5), l(23, 24), l(4), l(24, 25), l(4)),
			each("H_reset", l(40, 44, 45, 46), l(3, 4, 1, 11, 12), l(4), l(9, 3, 4), l(3)),
			each("H_reset", l(44, 45), l(44, 45, 52, 55, 32, 34, 35), l(4), l(3, 4, 44), l(3)),
			each("H_reset", l(12, 14, 16, 17), l(58, 59, 62), l(3), l(59, 0), l(4)),
			each("H_reset", l(13, 14, 15), l(73, 74, 16, 75), l(3), l(73, 16, 75), l(3))),
		cat(each("H_reset", l(0, 1, 2), l(0), l(8), l(0), l(7)),
			each("H_reset", l(6, 8, 13, 16, 23, 30), l(0), l(7), l(0), l(6)),
			each("H_reset", l(40, 45), l(3, 4, 1, 11, 12, 44, 45), l(6), l(9, 3, 5, 44), l(4))),
		"history A (fully symbolic 6 (7; 8 for CSeq / Call-ID / numbers) bytes or a header / name-addr template with a 3-4 (6) byte window, abandoned at every symbolic cut incl. complete / failed) -> the type's Reset -> input B (5-6 (6-7) symbolic bytes / template) vs. a new object with the same caller arrays: complete object state equal after reset (=> histories of any length), same verdict / offset / observables on B; all parser object types incl. caller arrays of capacity 0,1,2; stand-alone header-block objects (HdrLst + PHdrVals, capacities (2,2),(1,1),(0,0)) abandoned inside a P-Asserted-Identity / Contact / To value (3-byte window, also inside the quoted name of the first PAI value) and re-used on a block with the same kind of header",
		"PsipURI (plain struct assignment), longer inputs")

	add("C13",
		cat(each("H_C13_msg", l(1, 3, 4, 9, 11, 12), l(3), l(0, 1, -1), l(0, 1, -1), l(0)),
			each("H_C13_msg", l(3, 11, 12), l(3), l(0, 1), l(0, 1), l(1)),
			each("H_C13_msg", l(32, 34, 35), l(3), l(0, 1), l(0, 1), l(0, 1)),
			each("H_C13_msg", l(44, 45, 52, 53, 55), l(3), l(0, 1), l(0, 1), l(0)),
			each("H_C13_msg", l(16), l(4), l(0, 1, 2), l(0, 1), l(0)),
			each("H_C13_params", l(6), l(0, 1, 2)), each("H_C13_hdrs", l(6), l(0, 1, 2)),
			each("H_C13_params_chunk", l(64, 66), l(3), l(0, 1, 2)), each("H_C13_params_chunk", l(0), l(6), l(0, 1)),
			each("H_C13_hdrs_chunk", l(65), l(3), l(0, 1, 2)), each("H_C13_hdrs_chunk", l(0), l(6), l(0, 1))),
		cat(each("H_C13_msg", l(1, 3, 4, 9, 11, 12), l(5), l(0, 1, 2), l(0, 1, 2), l(0)), each("H_C13_msg", l(3, 11, 32, 34, 44, 45), l(5), l(0, 1), l(0, 1), l(1)),
			each("H_C13_params", l(8), l(0, 1, 2, 3)), each("H_C13_hdrs", l(8), l(0, 1, 2, 3))),
		"the same symbolic message (header, boundary and interior templates with 3 (5)-byte windows, multi-header and multi-contact) parsed into arrays of capacity (hcap, ccap) in {none,0,1,2}^2 and into ample arrays, one-shot and with one symbolic cut; URI parameter / header lists of 6 (8) symbolic bytes and templates with capacities 0..3 vs 8, one-shot and with one symbolic cut",
		"GetMsgSig capacity behaviour is C19")

	add("C14",
		cat(each("H_C14", l(0), seq(1, 9)), each("H_C14", l(1, 2), seq(1, 7))),
		cat(each("H_C14", l(0), l(10, 11, 12)), each("H_C14", l(1, 2), l(8, 9, 10))),
		"ParseURI on scheme (any letter case, symbolic) + 1..9 (12) fully symbolic bytes: on success the components joined with their delimiters reproduce the input position by position, order, consumed length, numeric port == decimal value of the port text; error positions inside the input",
		"tel: texts containing '@' (not a tel number); longer URIs")

	add("C15",
		cat(each("H_C15_reflexive", seq(1, 6)), each("H_C15_symmetric", l(1, 2, 3), l(2, 3)), each("H_C15_entry", l(1, 2, 3), l(1, 2, 3)), each("H_C15_entry_reuse", l(1, 3), l(2, 3)),
			each("H_C15_case", l(1), l(2)), each("H_C15_case6", l(1), l(2, 3)), each("H_C15_pass", l(1, 2, 3)), each("H_C15_flags", seq(0, 6)), each("H_C15_presence", seq(0, 3)), each("H_C15_order", l(0, 1, 2))),
		cat(each("H_C15_reflexive", l(7, 8, 9, 10)), each("H_C15_symmetric", l(4, 5), l(3, 4)), each("H_C15_symmetric", l(5), l(5)), each("H_C15_entry", l(4, 5), l(3, 4, 5)), each("H_C15_entry_reuse", l(4, 5), l(4, 5)), each("H_C15_case", l(2), l(3)), each("H_C15_case6", l(2), l(5, 6)), each("H_C15_pass", l(4, 6))),
		"URIs = sip: (any case) + up to 6 (10) symbolic bytes each, all 64 skip-flag sets symbolic; precondition (lists parse, no duplicate names) decided with the library's own list parsers; reflexive, symmetric, flag monotonicity, entry-point agreement incl. handed-back URIs (fresh and re-used hand-back structures), case insensitivity on a template (host name and IPv6 reference with symbolic hex digits), two parameters / headers in opposite order with independent symbolic values (equal iff values agree), presence rule for user/ttl/method/maddr; passwords of 1-3 (6) symbolic bytes compare byte for byte unless skipped; two full URIs differing in exactly one component (symbolic byte) are equal iff that component's skip flag is set, never when the host differs",
		"longer URIs; more than 6 parameters")

	add("C16",
		cat(each("H_C16_hdr", seq(0, 20)), each("H_C16_mth", seq(0, 10)), each("H_C16_round"), each("H_C16_str"), each("H_C16_parse", seq(1, 8), l(0, 1)), each("H_C16_parse", l(12, 14), l(0)),
			each("H_C16_parse_at", l(2, 4, 7), l(0, 1, 2), l(1, 9)), each("H_C16_parse", l(3, 6), l(2)),
			each("H_C16_parse_chunk", l(2, 4, 7), l(0, 1, 2), l(0, 3)), each("H_C16_twice", seq(0, 8))),
		cat(each("H_C16_parse_at", l(1, 3, 5, 6, 8, 12), l(1, 2), l(3, 4096)), each("H_C16_parse_chunk", l(1, 3, 5, 6, 8, 12), l(1, 2), l(2, 300)), each("H_C16_hdr", seq(21, 24)), each("H_C16_mth", l(11, 12)), each("H_C16_parse", l(19), l(0))),
		"GetHdrType for every byte string of length 0..20 (24) and GetMethodNo for length 0..10 (12) vs. a linear scan of a literal copy of the table; Name()/String() total; round trip; ParseHdrLine assigns the same classification, also with white space before the colon, with the line at a non-zero offset and delivered in two pieces (every cut); every occurrence of a twice-occurring header (9 kinds, symbolic letter case) in a block parsed with the value parsers attached",
		"names longer than 24 bytes (only the length test can matter there)")

	add("C17",
		cat(each("H_C17_tok", l(0), l(6), seq(0, 6)), each("H_C17_tok", l(20), l(4), l(0, 1, 2)), each("H_C17_lists", l(0), l(6), l(0, 1, 3)),
			each("H_C17_tok", l(67, 68), l(3), seq(0, 6)), each("H_C17_tok_chunk", l(67, 68), l(3), l(0, 1, 6)),
			each("H_C17_tok_chunk", l(0), l(6), l(0, 1, 6)), each("H_C17_tok_chunk", l(20), l(4), l(0, 1)),
			each("H_C17_shape", seq(0, 6), l(2)), each("H_C17_emptyval", seq(0, 6), l(2)), each("H_C17_hlists", l(0), l(6), l(0, 1, 3)), each("H_C17_hlists", l(65), l(3), l(0, 2))),
		cat(each("H_C17_tok", l(0), l(8, 9, 10), seq(0, 6)), each("H_C17_tok_chunk", l(0), l(8, 9), l(0, 1, 6)), each("H_C17_tok", l(67, 68), l(5), seq(0, 6)), each("H_C17_tok_chunk", l(67, 68), l(5), l(0, 1, 6)), each("H_C17_lists", l(0), l(8, 9), l(0, 2)), each("H_C17_shape", seq(0, 6), l(4)), each("H_C17_emptyval", seq(0, 6), l(4)), each("H_C17_hlists", l(0), l(8), l(0, 2))),
		"ParseTokenParam in its documented loop on 6 (10) fully symbolic bytes for 7 option sets (both separators, ',' '?' end-of-header and end-of-input terminators): every reported name/value is inside the documented character set, stripped, in order, with exactly one '=' between them, complete quoted values that end at the first unescaped quote (templates with a 3 (5)-byte window inside a quoted value), and nothing but LWS / separators lies outside the reported parameters; completeness: a 3-parameter list built by construction from symbolic bytes of the documented character set (2 (4)-byte name and value, 1-byte valueless name, quoted value, optional SP / HT around separators) is accepted and reported exactly as written, all 7 option sets; an empty value followed by the separator and a further parameter (`n=` SEP `m=v`) is reported as an empty value and the list continues; list wrappers (URI parameters and URI headers) count / classify / accumulate; the same loop over an input delivered in two pieces (every cut) for the option sets without the end-of-input option",
		"POptTokSpTermF lists; longer inputs")

	add("C18",
		cat(each("H_C18", l(0), seq(1, 9)), each("H_C18", l(1, 2), seq(1, 6))),
		cat(each("H_C18", l(0), l(10, 11)), each("H_C18", l(1, 2), l(7, 8, 9))),
		"accepted URIs of scheme + 1..9 (11) symbolic bytes relocated onto every 16-bit (offset, length) target with offset+length <= 65535 (both symbolic words, no sampling); Long/Short/Flat/Truncate views",
		"longer URIs")

	add("C19",
		cat(each("H_C19_insert", l(0, 1), seq(0, 6), l(2)), each("H_C19_insert", l(2), l(1), l(1)), each("H_C19_insert_rot", l(0, 1), l(0, 3, 6), l(2), seq(1, 5)), each("H_C19_cap", seq(0, 7), l(2)),
			each("H_C19_cap", l(4, 12), l(4)), each("H_C19_chunk", l(2)), each("H_C19_via", l(1, 2, 3)), each("H_C19_strsig", seq(0, 4)), each("H_C19_string", seq(0, 8)), each("H_C19_state", l(1, 2), l(1, 2, 7)), each("H_C19_othertags", l(0, 1), l(2, 3))),
		cat(each("H_C19_insert", l(0, 1), seq(0, 6), l(4)), each("H_C19_othertags", l(0, 1), l(6, 10)), each("H_C19_strsig", l(5)), each("H_C19_cap", l(2, 5), l(6)), each("H_C19_state", l(3), l(2))),
		"the To tag and a Contact parameter value (2-3 (10) symbolic bytes) do not change the signature, with and without a From tag; requests built from a 6-header skeleton in 6 rotations (Via first .. Via last): a header with symbolic value inserted at every position + a repeated From appended (signature unchanged); replies; a header with a symbolic 2-4 byte name and capacities 0..7,12 (same signature or ErrHdrTrunc); every single cut; first Via joined / split / extended with the same symbolic branch; message state constructed directly with 1-2 (3) stored headers of every type and form, symbolic insertion point and array cut; string signatures on 0-4 (5) symbolic bytes; String() for every documented-shape signature",
		"header sets other than the skeleton; more than 8 stored headers")

	add("C20",
		cat(each("H_C20_prefix", seq(1, 16), l(4)), each("H_C20_prefix", l(8), l(0, 3, 5)), each("H_C20_prefix_full", l(3), l(1, 2)), each("H_C20_prefix_full", l(2), l(2)), each("H_C20_contains", seq(1, 12)), each("H_C20_cid", l(0, 1, 2), l(0, 1, 2))),
		cat(each("H_C20_prefix", l(17, 18, 19, 20), l(4)), each("H_C20_prefix_full", l(3), l(3, 4)), each("H_C20_contains", l(13, 14, 15)), each("H_C20_cid", l(3), l(0, 1)), each("H_C20_cid", l(0, 1), l(3))),
		"IP4Prefix on every byte string of length 1..16 (20) and on four dot-separated groups of 3 symbolic bytes + 1-2 (4) symbolic followers, ContainsIP4 1..12 (15), GetCallIDSig flags on an address with 0..2 (3) symbolic bytes before and after, vs. a non-incremental reference (four groups of 1-3 digits <= 255, maximal munch)",
		"longer strings")
	return m
}
