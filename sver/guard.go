package main

// Path conditions as an exact DNF of cubes. A cube is a product of per-byte
// value sets (one Mask per 8-bit variable) conjoined with a residual term
// (selectors, multi-byte arithmetic conditions). Single-byte branch
// conditions are decided on the value sets; a cube whose residual term
// mentions byte variables is checked with the solver (cached per
// (term, value sets of its support)). A state is feasible iff it has a cube.

import (
	"math/bits"
	"os"
)

type Cube struct {
	t *Term    // residual term
	m []uint16 // interned mask id per variable index (missing / 0 = full)
	h uint64   // hash of m
}

var debugGuards = os.Getenv("SVER_DEBUG_GUARDS") != ""

type maskPair struct{ a, b uint16 }

type Guards struct {
	e      *Engine
	masks  []Mask          // id -> mask; id 0 = full
	ids    map[Mask]uint16 //
	andC   map[maskPair]uint16
	orC    map[maskPair]uint16
	satMem map[*Term]bool // terms known satisfiable on their own (no byte constraints needed)
	cache  map[localKey]bool
	empty  uint16
}

type localKey struct {
	id int32
	mh uint64
}

func NewGuards(e *Engine) *Guards {
	g := &Guards{e: e, ids: map[Mask]uint16{}, andC: map[maskPair]uint16{}, orC: map[maskPair]uint16{},
		satMem: map[*Term]bool{}, cache: map[localKey]bool{}}
	g.intern(fullMask)
	g.empty = g.intern(Mask{})
	return g
}

func (g *Guards) intern(m Mask) uint16 {
	if id, ok := g.ids[m]; ok {
		return id
	}
	if len(g.masks) >= 65535 {
		unsupported("too many distinct byte value sets")
	}
	id := uint16(len(g.masks))
	g.masks = append(g.masks, m)
	g.ids[m] = id
	return id
}

func (g *Guards) and(a, b uint16) uint16 {
	if a == 0 {
		return b
	}
	if b == 0 || a == b {
		return a
	}
	k := maskPair{a, b}
	if r, ok := g.andC[k]; ok {
		return r
	}
	r := g.intern(g.masks[a].And(g.masks[b]))
	g.andC[k] = r
	return r
}

func (g *Guards) or(a, b uint16) uint16 {
	if a == 0 || b == 0 {
		return 0
	}
	if a == b {
		return a
	}
	k := maskPair{a, b}
	if r, ok := g.orC[k]; ok {
		return r
	}
	r := g.intern(g.masks[a].Or(g.masks[b]))
	g.orC[k] = r
	return r
}

func (c *Cube) mid(v int) uint16 {
	if v < len(c.m) {
		return c.m[v]
	}
	return 0
}

func (g *Guards) trueCube() *Cube { return &Cube{t: g.e.ts.True} }

// withMask returns a copy of c with variable v restricted to mask id.
func (g *Guards) withMask(c *Cube, v int, id uint16) *Cube {
	n := max(len(c.m), v+1)
	m := make([]uint16, n)
	copy(m, c.m)
	h := c.h
	if m[v] != 0 {
		h ^= mix(uint64(v)+1, uint64(m[v]))
	}
	m[v] = id
	if id != 0 {
		h ^= mix(uint64(v)+1, uint64(id))
	}
	return &Cube{t: c.t, m: m, h: h}
}

// cubeSat: is t ∧ ⋀_{v ∈ Sup(t)} (v ∈ mask_v) satisfiable? Cached.
func (g *Guards) cubeSat(t *Term, c *Cube) bool {
	if t.IsConst() {
		return t.C != 0
	}
	ts := g.e.ts
	byteSup := false
	var h uint64
	for s := t.Sup; s != 0; s &= s - 1 {
		v := bits.TrailingZeros64(s)
		if ts.Vars[v].W == 8 {
			if id := c.mid(v); id != 0 {
				byteSup = true
				h ^= mix(uint64(v)+1, uint64(id))
			}
		}
	}
	if !byteSup && g.satMem[t] {
		return true
	}
	key := localKey{id: t.ID, mh: h}
	if r, ok := g.cache[key]; ok {
		g.e.stats.LocalHit++
		return r
	}
	q := t
	for s := t.Sup; s != 0; s &= s - 1 {
		v := bits.TrailingZeros64(s)
		if ts.Vars[v].W == 8 {
			if id := c.mid(v); id != 0 {
				q = ts.And(q, g.e.maskPred(ts.varT[v], g.masks[id]))
			}
		}
	}
	g.e.stats.LocalQ++
	if debugGuards && g.e.stats.LocalQ < 40 {
		println("LOCALQ", g.e.ts.Show(t, 6), "stack", g.e.callStk[len(g.e.callStk)-1])
	}
	g.e.sol.SetTimeout(g.e.cfg.FeasTimeoutMs)
	r, _ := g.e.sol.Check(q, false)
	g.e.sol.SetTimeout(g.e.cfg.FinalTimeoutMs)
	if r == Unknown {
		g.e.stats.FeasUnknown++
	}
	res := r != Unsat // unknown: keep (sound, possibly infeasible)
	g.cache[key] = res
	if res && !byteSup {
		g.satMem[t] = true
	}
	return res
}

func isLiteral(t *Term) bool {
	return t.Op == OpVar || (t.Op == OpBNot && t.Args[0].Op == OpVar)
}

// filter returns the cubes of cs consistent with cond (cs ∧ cond).
func (g *Guards) filter(cs []*Cube, cond *Term) []*Cube {
	ts := g.e.ts
	if cond.IsConst() {
		if cond.C != 0 {
			return cs
		}
		return nil
	}
	var out []*Cube
	if v, m := ts.MaskOf(cond); v >= 0 {
		cid := g.intern(*m)
		for _, c := range cs {
			old := c.mid(v)
			nid := g.and(old, cid)
			if nid == g.empty {
				continue
			}
			nc := c
			if nid != old {
				nc = g.withMask(c, v, nid)
			}
			if g.e.cfg.ExactBytes && c.t.Sup&(1<<uint(v)) != 0 && nid != old {
				// re-check the residual term under the refined value set
				// (off by default: the cube is kept, a sound over-approximation)
				if !g.cubeSat(nc.t, nc) {
					continue
				}
			}
			out = append(out, nc)
		}
		return out
	}
	// boolean structure over several variables is pushed into the cubes:
	// A∧B = filter(filter(A),B); A∨B = filter(A) ∪ filter(¬A∧B) (disjoint)
	if bits.OnesCount64(cond.Sup) > 1 {
		switch cond.Op {
		case OpBAnd:
			return g.filter(g.filter(cs, cond.Args[0]), cond.Args[1])
		case OpBOr:
			a := g.filter(cs, cond.Args[0])
			b := g.filter(g.filter(cs, ts.Not(cond.Args[0])), cond.Args[1])
			return append(append([]*Cube(nil), a...), b...)
		case OpBNot:
			in := cond.Args[0]
			switch in.Op {
			case OpBAnd: // ¬(A∧B) = ¬A ∨ (A∧¬B)
				a := g.filter(cs, ts.Not(in.Args[0]))
				b := g.filter(g.filter(cs, in.Args[0]), ts.Not(in.Args[1]))
				return append(append([]*Cube(nil), a...), b...)
			case OpBOr: // ¬(A∨B) = ¬A ∧ ¬B
				return g.filter(g.filter(cs, ts.Not(in.Args[0])), ts.Not(in.Args[1]))
			}
		}
	}
	lit := isLiteral(cond)
	if debugGuards && len(cs) > 5 {
		println("filter multi-var cond over", len(cs), "cubes; sup bits", bits.OnesCount64(cond.Sup), "op", cond.Op, g.dump(cs))
	}
	for _, c := range cs {
		switch g.conjunct(c.t, cond, 0) {
		case 1:
			out = append(out, c) // cond is already a conjunct of the residual term
			continue
		case -1:
			continue
		}
		switch g.quick(cond, c) {
		case 1:
			g.e.stats.Quick++
			out = append(out, c) // implied under this cube's value sets
			continue
		case -1:
			g.e.stats.Quick++
			continue
		}
		nt := ts.And(c.t, cond)
		if nt.IsConst() {
			if nt.C == 0 {
				continue
			}
		} else if lit && c.t.Sup&cond.Sup == 0 && (c.t.IsConst() || g.satMem[c.t]) {
			g.satMem[nt] = true
		} else if !g.cubeSat(nt, c) {
			continue
		}
		out = append(out, &Cube{t: nt, m: c.m, h: c.h})
	}
	return out
}

func sameMasks(a, b *Cube) bool {
	if a.h != b.h {
		return false
	}
	n := max(len(a.m), len(b.m))
	for i := 0; i < n; i++ {
		if a.mid(i) != b.mid(i) {
			return false
		}
	}
	return true
}

// unionAll merges cube lists (disjunction), compacting cubes that have the
// same value sets (terms OR-ed) or the same term and value sets differing in
// exactly one variable (sets united).
func (g *Guards) unionAll(lists [][]*Cube) []*Cube {
	ts := g.e.ts
	total := 0
	for _, l := range lists {
		total += len(l)
	}
	if len(lists) == 1 {
		return lists[0]
	}
	// fast path: single-cube lists that differ in one and the same variable
	if total == len(lists) {
		c0 := lists[0][0]
		dv := -1
		ok := true
		for _, l := range lists[1:] {
			c := l[0]
			if c.t != c0.t {
				ok = false
				break
			}
			n := max(len(c.m), len(c0.m))
			for k := 0; k < n; k++ {
				if c.mid(k) != c0.mid(k) {
					if dv == -1 {
						dv = k
					} else if dv != k {
						ok = false
						break
					}
				}
			}
			if !ok {
				break
			}
		}
		if ok && dv >= 0 {
			id := c0.mid(dv)
			for _, l := range lists[1:] {
				id = g.or(id, l[0].mid(dv))
			}
			return []*Cube{g.withMask(c0, dv, id)}
		}
	}
	out := make([]*Cube, 0, total)
	// rule 1: identical value sets -> OR the residual terms. Disjoint paths
	// with one and the same residual term cannot have identical value sets.
	sameTerm := true
	t0 := lists[0][0].t
	for _, l := range lists {
		for _, c := range l {
			if c.t != t0 {
				sameTerm = false
			}
		}
	}
	if sameTerm {
		for _, l := range lists {
			out = append(out, l...)
		}
	} else if total <= 8 {
		for _, l := range lists {
		next:
			for _, c := range l {
				for i, o := range out {
					if sameMasks(o, c) {
						out[i] = g.orCube(o, c)
						continue next
					}
				}
				out = append(out, c)
			}
		}
	} else {
		byH := make(map[uint64][]int, total)
		for _, l := range lists {
		next2:
			for _, c := range l {
				for _, i := range byH[c.h] {
					if sameMasks(out[i], c) {
						out[i] = g.orCube(out[i], c)
						continue next2
					}
				}
				byH[c.h] = append(byH[c.h], len(out))
				out = append(out, c)
			}
		}
	}
	_ = ts
	if len(out) < 2 {
		return out
	}
	// rule 2: same term, value sets differ in exactly one variable. Only
	// variables whose overall value set differs between the lists can qualify.
	var cand uint64
	n := 0
	for _, c := range out {
		n = max(n, len(c.m))
	}
	for v := 0; v < n; v++ {
		var u0 uint16
		for li, l := range lists {
			var u uint16
			first := true
			for _, c := range l {
				id := c.mid(v)
				if first {
					u, first = id, false
				} else if u != id {
					u = g.or(u, id)
				}
				if u == 0 {
					break
				}
			}
			if li == 0 {
				u0 = u
			} else if u != u0 {
				cand |= 1 << uint(v)
				break
			}
		}
	}
	const K = 0x9E3779B97F4A7C15
	for s := cand; s != 0 && len(out) > 1; s &= s - 1 {
		v := bits.TrailingZeros64(s)
		changed := false
		if len(out) <= 8 {
			for i := 0; i < len(out); i++ {
				if out[i] == nil {
					continue
				}
				for j := i + 1; j < len(out); j++ {
					if out[j] == nil || out[i].t != out[j].t || !sameExcept(out[i], out[j], v) {
						continue
					}
					out[i] = g.withMask(out[i], v, g.or(out[i].mid(v), out[j].mid(v)))
					out[j] = nil
					changed = true
				}
			}
		} else {
			idx := make(map[uint64]int32, len(out))
			nxt := make([]int32, len(out))
			for i, c := range out {
				hv := c.h
				if id := c.mid(v); id != 0 {
					hv ^= mix(uint64(v)+1, uint64(id))
				}
				k := hv ^ uint64(c.t.ID)*K
				merged := false
				head, ok := idx[k]
				if ok {
					for j := head; j >= 0; j = nxt[j] {
						o := out[j]
						if o.t != c.t || !sameExcept(o, c, v) {
							continue
						}
						out[j] = g.withMask(o, v, g.or(o.mid(v), c.mid(v)))
						out[i] = nil
						merged = true
						changed = true
						break
					}
				}
				if !merged {
					if ok {
						nxt[i] = head
					} else {
						nxt[i] = -1
					}
					idx[k] = int32(i)
				}
			}
		}
		if changed {
			w := 0
			for _, c := range out {
				if c != nil {
					out[w] = c
					w++
				}
			}
			out = out[:w]
		}
	}
	return out
}

func (g *Guards) orCube(o, c *Cube) *Cube {
	nt := g.e.ts.Or(o.t, c.t)
	if nt.IsConst() || g.satMem[o.t] || g.satMem[c.t] || o.t.IsConst() || c.t.IsConst() {
		g.satMem[nt] = true
	}
	return &Cube{t: nt, m: o.m, h: o.h}
}

// sameExcept: value sets equal on every variable except v.
func sameExcept(a, b *Cube, v int) bool {
	n := max(len(a.m), len(b.m))
	for k := 0; k < n; k++ {
		if k != v && a.mid(k) != b.mid(k) {
			return false
		}
	}
	return true
}

// term builds the guard term of a cube list.
func (g *Guards) term(cs []*Cube) *Term {
	ts := g.e.ts
	res := ts.False
	for _, c := range cs {
		t := c.t
		for v, id := range c.m {
			if id != 0 {
				t = ts.And(t, g.e.maskPred(ts.varT[v], g.masks[id]))
			}
		}
		res = ts.Or(res, t)
	}
	return res
}

// holds evaluates a cube list under a model.
func (g *Guards) holds(cs []*Cube, model []uint64) bool {
	ts := g.e.ts
next:
	for _, c := range cs {
		for v, id := range c.m {
			if id == 0 {
				continue
			}
			var x uint64
			if v < len(model) {
				x = model[v]
			}
			if !g.masks[id].Has(int(x & 0xff)) {
				continue next
			}
		}
		if ts.Eval(c.t, model) != 0 {
			return true
		}
	}
	return false
}

// umask returns the union of the value sets of variable v over all cubes.
func (g *Guards) umask(cs []*Cube, v int) Mask {
	var m Mask
	for _, c := range cs {
		id := c.mid(v)
		if id == 0 {
			return fullMask
		}
		m = m.Or(g.masks[id])
	}
	return m
}

// ---------- engine-level helpers ----------

func (e *Engine) guardOf(st *State) *Term {
	if st.gcache == nil {
		st.gcache = e.g.term(st.cubes)
	}
	return st.gcache
}

func (e *Engine) snapTerm(s GuardSnap) *Term { return e.g.term(s.cubes) }

func (e *Engine) snapHolds(s GuardSnap, model []uint64) bool { return e.g.holds(s.cubes, model) }

// constrain adds cond to the path condition; false iff infeasible.
func (e *Engine) constrain(st *State, cond *Term) bool {
	if cond.IsConst() {
		return cond.C != 0
	}
	n := e.g.filter(st.cubes, cond)
	if len(n) == 0 {
		return false
	}
	st.cubes = n
	st.gcache = nil
	return true
}

// selector returns (lazily) the term that is true exactly on the inputs of cs.
func (e *Engine) selector(cs []*Cube) func() *Term {
	var t *Term
	return func() *Term {
		if t == nil {
			t = e.g.term(cs)
		}
		return t
	}
}

func (g *Guards) dump(cs []*Cube) string {
	out := ""
	for _, c := range cs {
		out += "["
		for v, id := range c.m {
			if id != 0 {
				out += g.e.ts.Vars[v].Name + ":" + itoa(g.masks[id].Count()) + "/" + itoa(g.masks[id].First()) + " "
			}
		}
		out += "t" + itoa(int(c.t.ID)) + "] "
	}
	return out
}

func itoa(i int) string {
	if i == 0 {
		return "0"
	}
	neg := i < 0
	if neg {
		i = -i
	}
	b := []byte{}
	for i > 0 {
		b = append([]byte{byte('0' + i%10)}, b...)
		i /= 10
	}
	if neg {
		return "-" + string(b)
	}
	return string(b)
}

// conjunct scans the conjunction tree of t for cond (+1) or its negation (-1).
func (g *Guards) conjunct(t, cond *Term, depth int) int {
	if t == cond {
		return 1
	}
	if (t.Op == OpBNot && t.Args[0] == cond) || (cond.Op == OpBNot && cond.Args[0] == t) {
		return -1
	}
	if t.Op == OpBAnd && depth < 64 {
		if r := g.conjunct(t.Args[1], cond, depth+1); r != 0 {
			return r
		}
		return g.conjunct(t.Args[0], cond, depth+1)
	}
	return 0
}
