package main

// One long-lived SMT solver process per engine, driven through stdin/stdout
// with push/pop. Node definitions are sent once at base level.

import (
	"bufio"
	"fmt"
	"io"
	"os"
	"os/exec"
	"strconv"
	"strings"
	"time"
)

type SatResult int

const (
	Unsat SatResult = iota
	Sat
	Unknown
)

func (r SatResult) String() string { return [...]string{"unsat", "sat", "unknown"}[r] }

type Solver struct {
	ts        *Terms
	bin       string
	args      []string
	cmd       *exec.Cmd
	in        io.WriteCloser
	out       *bufio.Reader
	declared  int // number of vars declared
	Queries   int
	NSat      int
	NUnsat    int
	NUnknown  int
	TotalMs   float64
	MaxMs     float64
	TimeoutMs int
	Errors    []string
	Log       io.Writer
}

func solverCmd(name string) (string, []string) {
	switch name {
	case "z3":
		return "z3", []string{"-in"}
	case "cvc5":
		return "cvc5", []string{"--incremental", "--lang=smt2", "--produce-models"}
	default:
		return "z3-new", []string{"-in"}
	}
}

func NewSolver(ts *Terms, name string, timeoutMs int) (*Solver, error) {
	bin, args := solverCmd(name)
	s := &Solver{ts: ts, bin: bin, args: args, TimeoutMs: timeoutMs}
	if lp := os.Getenv("SVER_SMTLOG"); lp != "" {
		if f, err := os.Create(lp); err == nil {
			s.Log = f
		}
	}
	if err := s.start(); err != nil {
		return nil, err
	}
	return s, nil
}

func (s *Solver) start() error {
	s.cmd = exec.Command(s.bin, s.args...)
	in, err := s.cmd.StdinPipe()
	if err != nil {
		return err
	}
	out, err := s.cmd.StdoutPipe()
	if err != nil {
		return err
	}
	s.cmd.Stderr = nil
	if err := s.cmd.Start(); err != nil {
		return err
	}
	s.in = in
	s.out = bufio.NewReaderSize(out, 1<<16)
	s.declared = 0
	s.ts.ResetEmitted()
	s.send("(set-option :produce-models true)\n")
	if s.bin != "cvc5" && s.TimeoutMs > 0 {
		s.send(fmt.Sprintf("(set-option :timeout %d)\n", s.TimeoutMs))
	}
	if s.bin == "cvc5" {
		s.send("(set-logic QF_BV)\n")
		if s.TimeoutMs > 0 {
			s.send(fmt.Sprintf("(set-option :tlimit-per %d)\n", s.TimeoutMs))
		}
	}
	return nil
}

// SetTimeout changes the per-query time limit.
func (s *Solver) SetTimeout(ms int) {
	if ms == s.TimeoutMs || ms <= 0 {
		return
	}
	s.TimeoutMs = ms
	if s.bin == "cvc5" {
		return
	}
	s.send(fmt.Sprintf("(set-option :timeout %d)\n", ms))
}

func (s *Solver) send(t string) {
	if s.Log != nil {
		io.WriteString(s.Log, t)
	}
	io.WriteString(s.in, t)
}

func (s *Solver) Close() {
	if s.cmd != nil {
		s.send("(exit)\n")
		s.in.Close()
		done := make(chan struct{})
		go func() { s.cmd.Wait(); close(done) }()
		select {
		case <-done:
		case <-time.After(2 * time.Second):
			s.cmd.Process.Kill()
		}
		s.cmd = nil
	}
}

func (s *Solver) prepare(t *Term) {
	var sb strings.Builder
	for s.declared < len(s.ts.Vars) {
		v := s.ts.Vars[s.declared]
		if v.W == 0 {
			fmt.Fprintf(&sb, "(declare-const %s Bool)\n", v.Name)
		} else {
			fmt.Fprintf(&sb, "(declare-const %s (_ BitVec %d))\n", v.Name, v.W)
		}
		s.declared++
	}
	s.ts.Defs(t, &sb)
	if sb.Len() > 0 {
		s.send(sb.String())
	}
}

func (s *Solver) readLine() (string, error) {
	for {
		l, err := s.out.ReadString('\n')
		if err != nil {
			return "", err
		}
		l = strings.TrimSpace(l)
		if l == "" {
			continue
		}
		return l, nil
	}
}

// Check decides satisfiability of the boolean term t. When sat and wantModel,
// the values of all declared variables are returned.
func (s *Solver) Check(t *Term, wantModel bool) (SatResult, []uint64) {
	if t.IsConst() {
		if t.C == 0 {
			return Unsat, nil
		}
		if !wantModel {
			return Sat, nil
		}
	}
	s.prepare(t)
	t0 := time.Now()
	s.Queries++
	s.send("(push 1)\n(assert " + s.ts.ref(t) + ")\n(check-sat)\n")
	res := Unknown
	for {
		l, err := s.readLine()
		if err != nil {
			s.Errors = append(s.Errors, "solver died: "+err.Error())
			s.start()
			ms := float64(time.Since(t0).Microseconds()) / 1000
			s.TotalMs += ms
			s.NUnknown++
			return Unknown, nil
		}
		if strings.HasPrefix(l, "(error") {
			s.Errors = append(s.Errors, l)
			continue
		}
		switch l {
		case "sat":
			res = Sat
		case "unsat":
			res = Unsat
		case "unknown", "timeout":
			res = Unknown
		default:
			s.Errors = append(s.Errors, "unexpected: "+l)
			continue
		}
		break
	}
	var model []uint64
	if res == Sat && wantModel && len(s.ts.Vars) > 0 {
		var sb strings.Builder
		sb.WriteString("(get-value (")
		for _, v := range s.ts.Vars {
			sb.WriteString(v.Name)
			sb.WriteString(" ")
		}
		sb.WriteString("))\n")
		s.send(sb.String())
		model = s.readModel()
	}
	s.send("(pop 1)\n")
	ms := float64(time.Since(t0).Microseconds()) / 1000
	s.TotalMs += ms
	if ms > s.MaxMs {
		s.MaxMs = ms
	}
	switch res {
	case Sat:
		s.NSat++
	case Unsat:
		s.NUnsat++
	default:
		s.NUnknown++
	}
	if len(s.Errors) > 0 && res != Unknown {
		// any error line makes the answer inconclusive
		return Unknown, nil
	}
	return res, model
}

// readModel parses "((name value) (name value) ...)" possibly over several lines.
func (s *Solver) readModel() []uint64 {
	depth := 0
	var sb strings.Builder
	started := false
	for {
		l, err := s.out.ReadString('\n')
		if err != nil {
			return nil
		}
		for _, c := range l {
			if c == '(' {
				depth++
				started = true
			} else if c == ')' {
				depth--
			}
		}
		sb.WriteString(l)
		if started && depth <= 0 {
			break
		}
	}
	return s.parseModel(sb.String())
}

func (s *Solver) parseModel(txt string) []uint64 {
	model := make([]uint64, len(s.ts.Vars))
	idx := map[string]int{}
	for i, v := range s.ts.Vars {
		idx[v.Name] = i
	}
	// tokenise
	txt = strings.NewReplacer("(", " ( ", ")", " ) ").Replace(txt)
	toks := strings.Fields(txt)
	for i := 0; i < len(toks); i++ {
		vi, ok := idx[toks[i]]
		if !ok {
			continue
		}
		// next token(s) is the value
		j := i + 1
		if j >= len(toks) {
			break
		}
		switch {
		case toks[j] == "true":
			model[vi] = 1
		case toks[j] == "false":
			model[vi] = 0
		case strings.HasPrefix(toks[j], "#x"):
			v, _ := strconv.ParseUint(toks[j][2:], 16, 64)
			model[vi] = v
		case strings.HasPrefix(toks[j], "#b"):
			v, _ := strconv.ParseUint(toks[j][2:], 2, 64)
			model[vi] = v
		case toks[j] == "(" && j+2 < len(toks) && toks[j+1] == "_" && strings.HasPrefix(toks[j+2], "bv"):
			v, _ := strconv.ParseUint(toks[j+2][2:], 10, 64)
			model[vi] = v
		}
	}
	return model
}

// CheckOneShot decides t in a fresh solver process (non-incremental: the
// solver can use its full bit-vector preprocessing), with a time limit.
func (s *Solver) CheckOneShot(t *Term, wantModel bool, timeoutMs int) (SatResult, []uint64) {
	if t.IsConst() && t.C == 0 {
		return Unsat, nil
	}
	var sb strings.Builder
	sb.WriteString("(set-option :produce-models true)\n")
	if s.bin != "cvc5" {
		fmt.Fprintf(&sb, "(set-option :timeout %d)\n", timeoutMs)
	} else {
		sb.WriteString("(set-logic QF_BV)\n")
	}
	sb.WriteString(s.ts.VarDecls())
	s.ts.DefsAll(t, &sb)
	sb.WriteString("(assert " + s.ts.ref(t) + ")\n(check-sat)\n")
	if wantModel && len(s.ts.Vars) > 0 {
		sb.WriteString("(get-value (")
		for _, v := range s.ts.Vars {
			sb.WriteString(v.Name + " ")
		}
		sb.WriteString("))\n")
	}
	sb.WriteString("(exit)\n")
	t0 := time.Now()
	args := append([]string{}, s.args...)
	if s.bin == "cvc5" {
		args = append(args, fmt.Sprintf("--tlimit=%d", timeoutMs))
	}
	cmd := exec.Command(s.bin, args...)
	cmd.Stdin = strings.NewReader(sb.String())
	done := make(chan struct{})
	var out []byte
	go func() { out, _ = cmd.Output(); close(done) }()
	select {
	case <-done:
	case <-time.After(time.Duration(timeoutMs+5000) * time.Millisecond):
		if cmd.Process != nil {
			cmd.Process.Kill()
		}
		<-done
	}
	s.Queries++
	ms := float64(time.Since(t0).Microseconds()) / 1000
	s.TotalMs += ms
	if ms > s.MaxMs {
		s.MaxMs = ms
	}
	txt := string(out)
	lines := strings.Split(txt, "\n")
	res := Unknown
	rest := ""
	for i, l := range lines {
		l = strings.TrimSpace(l)
		if strings.HasPrefix(l, "(error") {
			s.Errors = append(s.Errors, l)
			return Unknown, nil
		}
		if l == "sat" || l == "unsat" || l == "unknown" || l == "timeout" {
			switch l {
			case "sat":
				res = Sat
			case "unsat":
				res = Unsat
			}
			rest = strings.Join(lines[i+1:], "\n")
			break
		}
	}
	switch res {
	case Sat:
		s.NSat++
	case Unsat:
		s.NUnsat++
	default:
		s.NUnknown++
	}
	if res == Sat && wantModel {
		return res, s.parseModel(rest)
	}
	return res, nil
}
