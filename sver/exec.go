package main

// Symbolic interpreter for go/ssa: forks on byte-dependent conditions, keeps
// offsets / lengths / state enums concrete per state, and merges states whose
// concrete store is identical (guards OR-ed, symbolic cells ite-merged).

import (
	"fmt"
	"go/constant"
	"go/token"
	"go/types"
	"math/bits"
	"sort"
	"strings"

	"golang.org/x/tools/go/ssa"
)

type EngineError struct{ Msg string }

func (e *EngineError) Error() string { return e.Msg }

func unsupported(f string, a ...interface{}) {
	panic(&EngineError{Msg: fmt.Sprintf(f, a...)})
}

// SymPtr is the address of element Idx (symbolic) of a constant table.
type SymPtr struct {
	Obj, Off int32
	ESz, N   int32
	Idx      *Term
}

type Fail struct {
	ID     string    // assertion id, or "panic:..." / "unwind"
	Kind   string    // assert | panic | unwind
	Snap   GuardSnap // state guard
	Extra  *Term     // extra conjunct (nil: none)
	Cond   *Term     // asserted condition (nil: definitely violated)
	Known  *Term     // known-finding region (nil: none)
	KFID   string
	Where  string
	Detail string
}

type AssertStat struct {
	States   int // merged states that reached the assertion
	Symbolic int // of which the condition was symbolic
	Trivial  int // condition concretely true
}

type ObsEntry struct {
	Seq  int
	Snap GuardSnap
	Name string
	Val  Value // Int or *Term
	W    uint8
}

type Config struct {
	Unwind         int  // max loop-header visits per activation
	CheckComplex   bool // solver feasibility check for multi-variable branch conditions
	ExactBytes     bool // re-check residual terms of cubes on every value-set refinement
	FeasTimeoutMs  int
	FinalTimeoutMs int
	MaxStates      int
	Trace          bool
}

type Stats struct {
	Blocks      int64
	Instrs      int64
	Forks       int64
	Pruned      int64
	Merges      int64
	MergedItems int64
	Calls       int64
	MaxPending  int
	Edges       int64
	FeasQ       int64
	FeasUnknown int64
	LocalQ      int64
	LocalHit    int64
	Approx      int64
	Quick       int64
	States      int64 // merged states scheduled
}

type Item struct {
	blk  int
	st   *State
	vec  []Value
	iter int
}

type Result struct {
	st  *State
	ret Value
}

type Activation struct {
	fi      *FnInfo
	pending []*Item
	results []Result
	mark    int
}

type ctx struct {
	act  *Activation
	fi   *FnInfo
	blk  int
	st   *State
	regs []Value
	iter int
}

type Engine struct {
	P        *Program
	ts       *Terms
	sol      *Solver
	cfg      Config
	globals  map[*ssa.Global]int32
	base     *State // state after package init
	stats    Stats
	fails    []*Fail
	asserts  map[string]*AssertStat
	reach    map[string][]GuardSnap
	entered  map[*ssa.Function]int
	pool     map[*FnInfo][][]Value
	consts   map[*ssa.Const]Value
	varByNm  map[string]*Term
	depth    int
	initMode bool
	kfAccept map[string]bool
	callStk  []string
	g        *Guards
	spec     JobSpec
	conc     *Vector         // concrete mode: nondeterministic inputs come from this vector
	clog     []string        // concrete mode: observation log
	loads    map[string]bool // globals loaded (footprint)
	gstores  map[string]bool // globals stored outside init (footprint)
}

func NewEngine(p *Program, cfg Config) *Engine {
	e := &Engine{P: p, ts: NewTerms(), cfg: cfg,
		globals: map[*ssa.Global]int32{}, asserts: map[string]*AssertStat{}, reach: map[string][]GuardSnap{},
		entered: map[*ssa.Function]int{}, pool: map[*FnInfo][][]Value{}, consts: map[*ssa.Const]Value{},
		varByNm: map[string]*Term{}, kfAccept: map[string]bool{}, loads: map[string]bool{}, gstores: map[string]bool{}}
	e.g = NewGuards(e)
	return e
}

func (e *Engine) getVar(name string, w uint8, kind string) *Term {
	if t, ok := e.varByNm[name]; ok {
		return t
	}
	t := e.ts.NewVar(name, w, kind)
	e.varByNm[name] = t
	return t
}

// ---------- package initialisation ----------

func (e *Engine) InitGlobals() {
	st := &State{cubes: []*Cube{e.g.trueCube()}, heap: NewHeap()}
	// allocate all globals of sipsp and bytescase
	for _, pkg := range e.P.AllPkgs {
		if !e.ownPkg(pkg) {
			continue
		}
		names := []string{}
		for n, m := range pkg.Members {
			if _, ok := m.(*ssa.Global); ok {
				names = append(names, n)
			}
		}
		sort.Strings(names)
		for _, n := range names {
			g := pkg.Members[n].(*ssa.Global)
			et := g.Type().(*types.Pointer).Elem()
			l := e.P.Lay.Of(et)
			cells := make([]Value, l.Size)
			copy(cells, l.Zero)
			id := st.heap.Alloc(cells, l.Ptrs, "global:"+g.String(), false)
			e.globals[g] = id
		}
	}
	e.initMode = true
	for _, pkg := range e.P.AllPkgs {
		if pkg.Pkg.Path() == "github.com/intuitivelabs/bytescase" {
			if f := pkg.Func("init"); f != nil {
				res := e.call(e.P.Info(f), st, nil)
				st = res[0].st
			}
		}
	}
	res := e.call(e.P.Info(e.P.Pkg.Func("init")), st, nil)
	if len(res) != 1 {
		unsupported("package init forked")
	}
	e.initMode = false
	st = res[0].st
	st.allocLog = nil
	// everything allocated by the init functions is package-level state too
	for _, o := range st.heap.objs {
		if o != nil && !strings.HasPrefix(o.tag, "global:") {
			o.tag = "global:init-data(" + o.tag + ")"
		}
	}
	e.base = st
	e.stats = Stats{}
	e.entered = map[*ssa.Function]int{}
}

func (e *Engine) ownPkg(pkg *ssa.Package) bool {
	if pkg == nil {
		return false
	}
	if pkg == e.P.Pkg {
		return true
	}
	return pkg.Pkg.Path() == "github.com/intuitivelabs/bytescase"
}

// ---------- values ----------

func (e *Engine) constVal(c *ssa.Const) Value {
	if v, ok := e.consts[c]; ok {
		if a, isAgg := v.(Agg); isAgg {
			return append(Agg(nil), a...)
		}
		return v
	}
	var v Value
	t := c.Type()
	if c.Value == nil {
		if isAggregate(t) {
			l := e.P.Lay.Of(t)
			v = append(Agg(nil), l.Zero...)
		} else {
			v = zeroScalar(t)
		}
	} else {
		switch u := t.Underlying().(type) {
		case *types.Basic:
			switch {
			case u.Info()&types.IsString != 0:
				v = Str(constant.StringVal(c.Value))
			case u.Info()&types.IsBoolean != 0:
				if constant.BoolVal(c.Value) {
					v = Int(1)
				} else {
					v = Int(0)
				}
			case u.Info()&types.IsInteger != 0:
				w, _ := intInfo(t)
				if i, ok := constant.Int64Val(constant.ToInt(c.Value)); ok {
					v = Int(uint64(i) & wmask(w))
				} else {
					u64, _ := constant.Uint64Val(constant.ToInt(c.Value))
					v = Int(u64 & wmask(w))
				}
			default:
				unsupported("constant of type %s", t)
			}
		default:
			unsupported("constant of type %s", t)
		}
	}
	e.consts[c] = v
	if a, isAgg := v.(Agg); isAgg {
		return append(Agg(nil), a...)
	}
	return v
}

func (e *Engine) get(c *ctx, v ssa.Value) Value {
	switch x := v.(type) {
	case *ssa.Const:
		return e.constVal(x)
	case *ssa.Global:
		id, ok := e.globals[x]
		if !ok {
			unsupported("global %s of foreign package", x)
		}
		return Ptr{Obj: id}
	case *ssa.Function:
		return Func{Fn: x}
	case *ssa.Builtin:
		unsupported("builtin %s as value", x.Name())
	}
	r, ok := c.fi.reg[vkey(v)]
	if !ok {
		unsupported("no register for %s in %s", v.Name(), c.fi.fn)
	}
	return c.regs[r]
}

func (e *Engine) set(c *ctx, v ssa.Value, val Value) {
	c.regs[c.fi.reg[vkey(v)]] = val
}

func flat(v Value) []Value {
	if a, ok := v.(Agg); ok {
		return a
	}
	return []Value{v}
}

// toTerm converts a scalar value to a term of width w (0 = bool).
func (e *Engine) toTerm(v Value, w uint8) *Term {
	switch x := v.(type) {
	case Int:
		return e.ts.Const(w, uint64(x))
	case *Term:
		return x
	}
	panic(fmt.Sprintf("toTerm: %T", v))
}

func termW(t types.Type) uint8 {
	if isBool(t) {
		return 0
	}
	w, _ := intInfo(t)
	return w
}

func (e *Engine) pos(in ssa.Instruction) string {
	p := e.P.Prog.Fset.Position(in.Pos())
	if !p.IsValid() {
		if in.Parent() != nil {
			return in.Parent().Name()
		}
		return "?"
	}
	return fmt.Sprintf("%s:%d", shortFile(p.Filename), p.Line)
}

func shortFile(f string) string {
	if i := strings.LastIndex(f, "/"); i >= 0 {
		return f[i+1:]
	}
	return f
}

// ---------- guard / feasibility ----------

func (e *Engine) fail(c *ctx, kind, id string, cond *Term, in ssa.Instruction, detail string) {
	f := &Fail{ID: id, Kind: kind, Snap: c.st.snap(), Cond: cond}
	if in != nil {
		f.Where = e.pos(in)
	}
	f.Detail = detail + " stack=" + strings.Join(e.callStk, ">")
	e.fails = append(e.fails, f)
}

// requireOrPanic: cond must hold, otherwise the Go runtime would panic.
// Records a failure for the violating part and continues with cond assumed.
// Returns false if the state cannot continue.
func (e *Engine) requireOrPanic(c *ctx, cond *Term, in ssa.Instruction, what string) bool {
	if cond.IsConst() {
		if cond.C != 0 {
			return true
		}
		e.fail(c, "panic", "panic:"+what, nil, in, "")
		return false
	}
	bad := e.g.filter(c.st.cubes, e.ts.Not(cond))
	if len(bad) > 0 {
		f := &Fail{ID: "panic:" + what, Kind: "panic", Snap: GuardSnap{cubes: bad}, Where: e.pos(in),
			Detail: "stack=" + strings.Join(e.callStk, ">")}
		e.fails = append(e.fails, f)
		return e.constrain(c.st, cond)
	}
	return true
}

// ---------- activation / scheduling ----------

func (e *Engine) getRegs(fi *FnInfo) []Value {
	p := e.pool[fi]
	if n := len(p); n > 0 {
		r := p[n-1]
		e.pool[fi] = p[:n-1]
		return r
	}
	return make([]Value, fi.nreg)
}

func (e *Engine) putRegs(fi *FnInfo, r []Value) {
	e.pool[fi] = append(e.pool[fi], r)
}

func (e *Engine) call(fi *FnInfo, st *State, args []Value) []Result {
	if fi.fn.Blocks == nil {
		unsupported("call of function without body: %s", fi.fn)
	}
	e.entered[fi.fn]++
	e.stats.Calls++
	e.depth++
	if e.depth > 200 {
		unsupported("call depth exceeded in %s", fi.fn)
	}
	e.callStk = append(e.callStk, fi.fn.Name())
	act := &Activation{fi: fi, mark: len(st.allocLog)}
	regs := e.getRegs(fi)
	for i, p := range fi.fn.Params {
		regs[fi.reg[vkey(p)]] = args[i]
	}
	if len(fi.fn.FreeVars) > 0 {
		for i, fv := range fi.fn.FreeVars {
			regs[fi.reg[vkey(fv)]] = args[len(fi.fn.Params)+i]
		}
	}
	c := &ctx{act: act, fi: fi, blk: 0, st: st, regs: regs}
	e.runFrom(c, 0)
	e.putRegs(fi, regs)
	for len(act.pending) > 0 {
		if len(act.pending) > e.stats.MaxPending {
			e.stats.MaxPending = len(act.pending)
		}
		group := e.takeGroup(act)
		group = e.mergeItems(group)
		for _, it := range group {
			e.stats.States++
			bi := fi.blocks[it.blk]
			regs := e.getRegs(fi)
			n := 0
			for _, ph := range bi.phis {
				regs[fi.reg[vkey(ph)]] = it.vec[n]
				n++
			}
			for _, r := range bi.liveIn {
				regs[r] = it.vec[n]
				n++
			}
			c := &ctx{act: act, fi: fi, blk: it.blk, st: it.st, regs: regs, iter: it.iter}
			e.runFrom(c, bi.first)
			e.putRegs(fi, regs)
		}
	}
	e.depth--
	e.callStk = e.callStk[:len(e.callStk)-1]
	// collect garbage allocated by this activation, then merge results
	if fi.allocs || true {
		for i := range act.results {
			e.collect(act.results[i].st, act.mark, act.results[i].ret)
		}
	}
	return e.mergeResults(act.results)
}

// takeGroup removes and returns the pending items with minimal (hw, rpo).
func (e *Engine) takeGroup(act *Activation) []*Item {
	bestHW, bestRPO, bestBlk := 1<<30, 1<<30, -1
	for _, it := range act.pending {
		r := act.fi.blocks[it.blk].rpo
		if it.st.hw < bestHW || (it.st.hw == bestHW && r < bestRPO) {
			bestHW, bestRPO, bestBlk = it.st.hw, r, it.blk
		}
	}
	var group, rest []*Item
	for _, it := range act.pending {
		if it.blk == bestBlk && it.st.hw == bestHW {
			group = append(group, it)
		} else {
			rest = append(rest, it)
		}
	}
	act.pending = rest
	return group
}

func (e *Engine) enqueue(c *ctx, succ int, predBlock *ssa.BasicBlock) {
	bi := c.fi.blocks[succ]
	sb := c.fi.fn.Blocks[succ]
	vec := make([]Value, 0, len(bi.phis)+len(bi.liveIn))
	if len(bi.phis) > 0 {
		pi := -1
		for i, p := range sb.Preds {
			if p == predBlock {
				pi = i
				break
			}
		}
		for _, ph := range bi.phis {
			vec = append(vec, e.get(c, ph.Edges[pi]))
		}
	}
	for _, r := range bi.liveIn {
		vec = append(vec, c.regs[r])
	}
	iter := c.iter
	if bi.loopHdr {
		iter++
		if iter > e.cfg.Unwind {
			e.fail(c, "unwind", "unwind:"+c.fi.fn.Name(), nil, sb.Instrs[0], fmt.Sprintf("loop header visited %d times", iter))
			return
		}
	}
	c.act.pending = append(c.act.pending, &Item{blk: succ, st: c.st, vec: vec, iter: iter})
}

func itemKey(it *Item) uint64 {
	h := it.st.heap.hash
	for i, v := range it.vec {
		h ^= mix(uint64(i)+101, valHash(v))
	}
	cn := it.st.counters()
	for i, x := range cn {
		h ^= mix(uint64(i)+1001, uint64(x))
	}
	return h
}

func heapEq(a, b *Heap) bool {
	if len(a.objs) != len(b.objs) {
		return false
	}
	for i, oa := range a.objs {
		ob := b.objs[i]
		if oa == ob {
			continue
		}
		if oa == nil || ob == nil || len(oa.cells) != len(ob.cells) || oa.hash != ob.hash {
			return false
		}
		for j := range oa.cells {
			if !valEq(oa.cells[j], ob.cells[j]) {
				return false
			}
		}
	}
	return true
}

func stateEq(a, b *State) bool {
	if a.counters() != b.counters() {
		return false
	}
	for i := range a.allocLog {
		if a.allocLog[i] != b.allocLog[i] {
			return false
		}
	}
	return heapEq(a.heap, b.heap)
}

func (e *Engine) mergeVal(gb func() *Term, va, vb Value) Value {
	switch x := va.(type) {
	case *Term:
		y := vb.(*Term)
		if x == y {
			return x
		}
		return e.ts.Ite(gb(), y, x)
	case Agg:
		y := vb.(Agg)
		var out Agg
		for i := range x {
			m := e.mergeVal(gb, x[i], y[i])
			if out == nil {
				if mt, ok := m.(*Term); ok {
					if xt, ok2 := x[i].(*Term); ok2 && xt == mt {
						continue
					}
				} else {
					continue
				}
				out = append(Agg(nil), x...)
			}
			out[i] = m
		}
		if out != nil {
			return out
		}
		return x
	case Iface:
		y := vb.(Iface)
		if x.T == nil {
			return x
		}
		return Iface{T: x.T, V: e.mergeVal(gb, x.V, y.V)}
	}
	return va
}

// mergeState folds b into a (same key). gb selects b inside the union.
func (e *Engine) mergeState(a, b *State, gbf func() *Term) {
	for i, oa := range a.heap.objs {
		ob := b.heap.objs[i]
		if oa == ob || oa == nil {
			continue
		}
		for j := range oa.cells {
			ta, ok := oa.cells[j].(*Term)
			if !ok {
				if _, isI := oa.cells[j].(Iface); isI {
					m := e.mergeVal(gbf, oa.cells[j], ob.cells[j])
					a.heap.Store(Ptr{Obj: int32(i), Off: int32(j)}, m)
					oa = a.heap.objs[i]
				}
				continue
			}
			tb := ob.cells[j].(*Term)
			if ta != tb {
				a.heap.Store(Ptr{Obj: int32(i), Off: int32(j)}, e.ts.Ite(gbf(), tb, ta))
				oa = a.heap.objs[i]
			}
		}
	}
	a.read |= b.read
	if b.steps > a.steps {
		a.steps = b.steps
	}
	e.stats.Merges++
}

func (e *Engine) mergeItems(items []*Item) []*Item {
	if len(items) < 2 {
		return items
	}
	buckets := map[uint64][]int{}
	var groups [][]*Item
	for _, it := range items {
		k := itemKey(it)
		placed := false
		for _, gi := range buckets[k] {
			o := groups[gi][0]
			if len(o.vec) != len(it.vec) {
				continue
			}
			eq := true
			for i := range o.vec {
				if !valEq(o.vec[i], it.vec[i]) {
					eq = false
					break
				}
			}
			if !eq || !stateEq(o.st, it.st) {
				continue
			}
			groups[gi] = append(groups[gi], it)
			placed = true
			break
		}
		if !placed {
			buckets[k] = append(buckets[k], len(groups))
			groups = append(groups, []*Item{it})
		}
	}
	out := make([]*Item, 0, len(groups))
	for _, g := range groups {
		o := g[0]
		if len(g) > 1 {
			lists := make([][]*Cube, len(g))
			for i, it := range g {
				lists[i] = it.st.cubes
			}
			for _, it := range g[1:] {
				gb := e.selector(it.st.cubes)
				for i := range o.vec {
					o.vec[i] = e.mergeVal(gb, o.vec[i], it.vec[i])
				}
				e.mergeState(o.st, it.st, gb)
				if it.iter > o.iter {
					o.iter = it.iter
				}
				e.stats.MergedItems++
			}
			o.st.cubes = e.g.unionAll(lists)
			o.st.gcache = nil
		}
		out = append(out, o)
	}
	return out
}

func (e *Engine) mergeResults(rs []Result) []Result {
	if len(rs) < 2 {
		return rs
	}
	buckets := map[uint64][]int{}
	var groups [][]int
	for ri, r := range rs {
		k := r.st.heap.hash ^ mix(77, valHash(r.ret))
		for i, x := range r.st.counters() {
			k ^= mix(uint64(i)+1001, uint64(x))
		}
		placed := false
		for _, gi := range buckets[k] {
			o := rs[groups[gi][0]]
			if o.st.hw != r.st.hw || !valEq(o.ret, r.ret) || !stateEq(o.st, r.st) {
				continue
			}
			groups[gi] = append(groups[gi], ri)
			placed = true
			break
		}
		if !placed {
			buckets[k] = append(buckets[k], len(groups))
			groups = append(groups, []int{ri})
		}
	}
	out := make([]Result, 0, len(groups))
	for _, g := range groups {
		o := rs[g[0]]
		if len(g) > 1 {
			lists := make([][]*Cube, len(g))
			for i, ri := range g {
				lists[i] = rs[ri].st.cubes
			}
			for _, ri := range g[1:] {
				r := rs[ri]
				gb := e.selector(r.st.cubes)
				o.ret = e.mergeVal(gb, o.ret, r.ret)
				e.mergeState(o.st, r.st, gb)
				e.stats.MergedItems++
			}
			o.st.cubes = e.g.unionAll(lists)
			o.st.gcache = nil
		}
		out = append(out, o)
	}
	return out
}

// collect frees objects allocated since mark that are unreachable from the
// return value and from older objects.
func (e *Engine) collect(st *State, mark int, ret Value) {
	if len(st.allocLog) <= mark {
		return
	}
	newObjs := st.allocLog[mark:]
	isNew := map[int32]bool{}
	for _, id := range newObjs {
		isNew[id] = true
	}
	live := map[int32]bool{}
	var work []int32
	var visit func(v Value)
	visit = func(v Value) {
		switch x := v.(type) {
		case Ptr:
			if x.Obj >= 0 && isNew[x.Obj] && !live[x.Obj] {
				live[x.Obj] = true
				work = append(work, x.Obj)
			}
		case Slice:
			if x.Obj >= 0 && isNew[x.Obj] && !live[x.Obj] {
				live[x.Obj] = true
				work = append(work, x.Obj)
			}
		case SymStr:
			visit(x.S)
		case SymPtr:
			visit(Ptr{Obj: x.Obj})
		case Iface:
			if x.T != nil {
				visit(x.V)
			}
		case Func:
			for _, f := range x.Free {
				visit(f)
			}
		case Agg:
			for _, c := range x {
				visit(c)
			}
		}
	}
	visit(ret)
	for id, o := range st.heap.objs {
		if o == nil || isNew[int32(id)] {
			continue
		}
		for _, pc := range o.ptrs {
			visit(o.cells[pc])
		}
	}
	for len(work) > 0 {
		id := work[len(work)-1]
		work = work[:len(work)-1]
		o := st.heap.objs[id]
		for _, pc := range o.ptrs {
			visit(o.cells[pc])
		}
	}
	keep := st.allocLog[:mark:mark]
	for _, id := range newObjs {
		if live[id] {
			keep = append(keep, id)
		} else {
			st.heap.Free(id)
		}
	}
	st.allocLog = keep
}

// ---------- block execution ----------

const (
	stepNext = iota
	stepStop
	stepJump
)

func (e *Engine) runFrom(c *ctx, idx int) {
	for {
		b := c.fi.fn.Blocks[c.blk]
		e.stats.Blocks++
		jumped := false
		for ; idx < len(b.Instrs); idx++ {
			e.stats.Instrs++
			switch e.step(c, b.Instrs[idx], idx) {
			case stepStop:
				return
			case stepJump:
				jumped = true
			}
			if jumped {
				break
			}
		}
		if !jumped {
			unsupported("fell off block %d of %s", c.blk, c.fi.fn)
		}
		idx = c.fi.blocks[c.blk].first
	}
}

// cloneCtx forks the execution context (state and registers).
func (e *Engine) cloneCtx(c *ctx, st *State) *ctx {
	regs := e.getRegs(c.fi)
	copy(regs, c.regs)
	return &ctx{act: c.act, fi: c.fi, blk: c.blk, st: st, regs: regs, iter: c.iter}
}

// goTo transfers control to successor block succ.
func (e *Engine) goTo(c *ctx, from *ssa.BasicBlock, succ int) int {
	e.stats.Edges++
	bi := c.fi.blocks[succ]
	if bi.npreds == 1 && !bi.loopHdr {
		for _, ph := range bi.phis {
			e.set(c, ph, e.get(c, ph.Edges[0]))
		}
		c.blk = succ
		return stepJump
	}
	e.enqueue(c, succ, from)
	return stepStop
}

// needConcrete returns the concrete value of operand v; if it is symbolic the
// context is split per feasible value and re-run from instruction idx.
func (e *Engine) needConcrete(c *ctx, v ssa.Value, idx int) (uint64, bool) {
	val := e.get(c, v)
	switch x := val.(type) {
	case Int:
		return uint64(x), true
	case *Term:
		e.splitOn(c, x, func(c2 *ctx, k uint64) {
			e.set(c2, v, Int(k))
			e.runFrom(c2, idx)
		})
		return 0, false
	}
	unsupported("needConcrete: %T at %s", val, e.pos(c.fi.fn.Blocks[c.blk].Instrs[idx]))
	return 0, false
}

// splitOn enumerates the feasible values of t under the state's guard.
func (e *Engine) splitOn(c *ctx, t *Term, k func(c2 *ctx, v uint64)) {
	if vi := t.SingleVar(); vi >= 0 && e.ts.Vars[vi].W == 8 {
		_, vals := e.ts.ValuesOf(t, e.g.umask(c.st.cubes, vi))
		keys := make([]uint64, 0, len(vals))
		for kv := range vals {
			keys = append(keys, kv)
		}
		sort.Slice(keys, func(i, j int) bool { return keys[i] < keys[j] })
		if len(keys) > 300 {
			unsupported("splitOn: %d values", len(keys))
		}
		for _, kv := range keys {
			st2 := c.st.Fork()
			if !e.constrain(st2, e.maskPred(e.ts.varT[vi], vals[kv])) {
				continue
			}
			c2 := e.cloneCtx(c, st2)
			e.stats.Forks++
			k(c2, kv)
			e.putRegs(c.fi, c2.regs)
		}
		return
	}
	// solver enumeration
	rest := e.guardOf(c.st)
	for n := 0; ; n++ {
		if n > 70 {
			unsupported("splitOn: more than 70 values")
		}
		r, model := e.sol.Check(rest, true)
		if r == Unsat {
			return
		}
		if r != Sat {
			unsupported("splitOn: solver unknown")
		}
		kv := e.ts.Eval(t, model)
		eq := e.ts.Cmp(OpEq, t, e.ts.Const(t.W, kv))
		st2 := c.st.Fork()
		if e.constrain(st2, eq) {
			c2 := e.cloneCtx(c, st2)
			e.stats.Forks++
			k(c2, kv)
			e.putRegs(c.fi, c2.regs)
		}
		rest = e.ts.And(rest, e.ts.Not(eq))
	}
}

func (e *Engine) branch(c *ctx, cond *Term, in ssa.Instruction, b *ssa.BasicBlock) int {
	cT := e.g.filter(c.st.cubes, cond)
	cF := e.g.filter(c.st.cubes, e.ts.Not(cond))
	switch {
	case len(cT) > 0 && len(cF) > 0:
		e.stats.Forks++
		stF := c.st.Fork()
		stF.cubes, stF.gcache = cF, nil
		c.st.cubes, c.st.gcache = cT, nil
		ctxF := e.cloneCtx(c, stF)
		if e.goTo(ctxF, b, b.Succs[1].Index) == stepJump {
			e.runFrom(ctxF, ctxF.fi.blocks[ctxF.blk].first)
		}
		e.putRegs(c.fi, ctxF.regs)
		return e.goTo(c, b, b.Succs[0].Index)
	case len(cT) > 0:
		// the condition is implied by the path condition: nothing to add
		e.stats.Pruned++
		return e.goTo(c, b, b.Succs[0].Index)
	case len(cF) > 0:
		e.stats.Pruned++
		return e.goTo(c, b, b.Succs[1].Index)
	}
	e.stats.Pruned++
	return stepStop
}

func (e *Engine) step(c *ctx, in ssa.Instruction, idx int) int {
	switch x := in.(type) {
	case *ssa.DebugRef:
		return stepNext
	case *ssa.Jump:
		b := x.Block()
		return e.goTo(c, b, b.Succs[0].Index)
	case *ssa.If:
		b := x.Block()
		switch cv := e.get(c, x.Cond).(type) {
		case Int:
			if cv != 0 {
				return e.goTo(c, b, b.Succs[0].Index)
			}
			return e.goTo(c, b, b.Succs[1].Index)
		case *Term:
			return e.branch(c, cv, in, b)
		default:
			unsupported("if on %T", cv)
		}
	case *ssa.Return:
		var ret Value
		switch len(x.Results) {
		case 0:
		case 1:
			ret = e.get(c, x.Results[0])
		default:
			var a Agg
			for _, r := range x.Results {
				a = append(a, flat(e.get(c, r))...)
			}
			ret = a
		}
		c.act.results = append(c.act.results, Result{st: c.st, ret: ret})
		return stepStop
	case *ssa.Panic:
		msg := "explicit"
		if iv, ok := e.get(c, x.X).(Iface); ok {
			if s, ok := iv.V.(Str); ok {
				msg = string(s)
			}
		}
		e.fail(c, "panic", "panic:"+msg, nil, in, "")
		return stepStop
	case *ssa.Store:
		return e.doStore(c, x, idx)
	case *ssa.Alloc:
		et := x.Type().(*types.Pointer).Elem()
		l := e.P.Lay.Of(et)
		cells := make([]Value, l.Size)
		copy(cells, l.Zero)
		id := c.st.heap.Alloc(cells, l.Ptrs, x.Comment, !x.Heap)
		c.st.allocLog = append(c.st.allocLog, id)
		e.set(c, x, Ptr{Obj: id})
		return stepNext
	case *ssa.Phi:
		unsupported("phi executed in block body")
	case *ssa.BinOp:
		return e.doBinOp(c, x, idx)
	case *ssa.UnOp:
		return e.doUnOp(c, x, idx)
	case *ssa.Convert:
		return e.doConvert(c, x)
	case *ssa.ChangeType:
		e.set(c, x, e.get(c, x.X))
		return stepNext
	case *ssa.MakeInterface:
		e.set(c, x, Iface{T: x.X.Type(), V: e.get(c, x.X)})
		return stepNext
	case *ssa.ChangeInterface:
		e.set(c, x, e.get(c, x.X))
		return stepNext
	case *ssa.MakeClosure:
		f := Func{Fn: x.Fn.(*ssa.Function)}
		for _, b := range x.Bindings {
			f.Free = append(f.Free, e.get(c, b))
		}
		e.set(c, x, f)
		return stepNext
	case *ssa.FieldAddr:
		p, ok := e.get(c, x.X).(Ptr)
		if !ok {
			unsupported("FieldAddr on %T", e.get(c, x.X))
		}
		if p.Obj < 0 {
			e.fail(c, "panic", "panic:nil-deref", nil, in, "")
			return stepStop
		}
		st := x.X.Type().Underlying().(*types.Pointer).Elem()
		l := e.P.Lay.Of(st)
		e.set(c, x, Ptr{Obj: p.Obj, Off: p.Off + int32(l.FOffs[x.Field])})
		return stepNext
	case *ssa.Field:
		a := e.get(c, x.X).(Agg)
		l := e.P.Lay.Of(x.X.Type())
		fl := e.P.Lay.Of(x.Type())
		off := l.FOffs[x.Field]
		if fl.Size == 1 && !isAggregate(x.Type()) {
			e.set(c, x, a[off])
		} else {
			e.set(c, x, append(Agg(nil), a[off:off+fl.Size]...))
		}
		return stepNext
	case *ssa.Extract:
		a := e.get(c, x.Tuple).(Agg)
		l := e.P.Lay.Of(x.Tuple.Type())
		fl := e.P.Lay.Of(x.Type())
		off := l.FOffs[x.Index]
		if !isAggregate(x.Type()) {
			e.set(c, x, a[off])
		} else {
			e.set(c, x, append(Agg(nil), a[off:off+fl.Size]...))
		}
		return stepNext
	case *ssa.IndexAddr:
		return e.doIndexAddr(c, x, idx)
	case *ssa.Index:
		return e.doIndex(c, x, idx)
	case *ssa.Slice:
		return e.doSlice(c, x, idx)
	case *ssa.Call:
		return e.doCall(c, x, idx)
	case *ssa.TypeAssert:
		iv := e.get(c, x.X).(Iface)
		ok := iv.T != nil && types.Identical(iv.T, x.AssertedType)
		if x.CommaOk {
			var v Value
			if ok {
				v = iv.V
			} else if isAggregate(x.AssertedType) {
				v = append(Agg(nil), e.P.Lay.Of(x.AssertedType).Zero...)
			} else {
				v = zeroScalar(x.AssertedType)
			}
			okv := Int(0)
			if ok {
				okv = 1
			}
			e.set(c, x, append(Agg(nil), append(flat(v), okv)...))
			return stepNext
		}
		if !ok {
			e.fail(c, "panic", "panic:type-assert", nil, in, "")
			return stepStop
		}
		e.set(c, x, iv.V)
		return stepNext
	case *ssa.MakeSlice:
		n, ok := e.needConcrete(c, x.Len, idx)
		if !ok {
			return stepStop
		}
		cp, ok := e.needConcrete(c, x.Cap, idx)
		if !ok {
			return stepStop
		}
		et := x.Type().Underlying().(*types.Slice).Elem()
		el := e.P.Lay.Of(et)
		cells := make([]Value, 0, int(cp)*el.Size)
		var ptrs []int32
		for i := 0; i < int(cp); i++ {
			for _, p := range el.Ptrs {
				ptrs = append(ptrs, p+int32(len(cells)))
			}
			cells = append(cells, el.Zero...)
		}
		id := c.st.heap.Alloc(cells, ptrs, "makeslice", false)
		c.st.allocLog = append(c.st.allocLog, id)
		e.set(c, x, Slice{Obj: id, Len: int32(n), Cap: int32(cp), ESz: int32(el.Size)})
		return stepNext
	}
	unsupported("instruction %T (%s) at %s", in, in, e.pos(in))
	return stepStop
}

func (e *Engine) noteGlobal(c *ctx, obj int32, store bool) {
	if e.initMode {
		return
	}
	o := c.st.heap.objs[obj]
	if o != nil && strings.HasPrefix(o.tag, "global:") {
		if store {
			key := o.tag[7:] + " in " + c.fi.fn.Name()
			if !e.gstores[key] {
				// isolation (C04): a store to a package-level variable outside
				// init is an obligation of its own (confirmed natively by
				// comparing a digest of all package-level variables)
				e.fail(c, "assert", "isolation:package-state-modified", nil, nil, "store to "+key)
			}
			e.gstores[key] = true
		} else {
			e.loads[o.tag[7:]] = true
		}
	}
}

func (e *Engine) doStore(c *ctx, x *ssa.Store, idx int) int {
	pv := e.get(c, x.Addr)
	p, ok := pv.(Ptr)
	if !ok {
		unsupported("store through %T at %s", pv, e.pos(x))
	}
	if p.Obj < 0 {
		e.fail(c, "panic", "panic:nil-deref", nil, x, "")
		return stepStop
	}
	e.noteGlobal(c, p.Obj, true)
	v := e.get(c, x.Val)
	if a, isAgg := v.(Agg); isAgg {
		for i, cell := range a {
			c.st.heap.Store(Ptr{Obj: p.Obj, Off: p.Off + int32(i)}, cell)
		}
	} else {
		c.st.heap.Store(p, v)
	}
	return stepNext
}

func (e *Engine) load(c *ctx, p Ptr, t types.Type) Value {
	l := e.P.Lay.Of(t)
	o := c.st.heap.objs[p.Obj]
	if o == nil {
		unsupported("load from freed object %d", p.Obj)
	}
	if !isAggregate(t) {
		v := o.cells[p.Off]
		if tt, ok := v.(*Term); ok && tt.Op == OpVar && e.ts.Vars[tt.C].Kind == "byte" {
			bit := uint64(1) << tt.C
			if c.st.read&bit == 0 {
				c.st.read |= bit
				c.st.hw = bits.OnesCount64(c.st.read)
			}
		}
		return v
	}
	return append(Agg(nil), o.cells[p.Off:int(p.Off)+l.Size]...)
}

func (e *Engine) doUnOp(c *ctx, x *ssa.UnOp, idx int) int {
	v := e.get(c, x.X)
	switch x.Op {
	case token.MUL: // load
		switch p := v.(type) {
		case Ptr:
			if p.Obj < 0 {
				e.fail(c, "panic", "panic:nil-deref", nil, x, "")
				return stepStop
			}
			e.noteGlobal(c, p.Obj, false)
			e.set(c, x, e.load(c, p, x.Type()))
			return stepNext
		case SymPtr:
			e.set(c, x, e.loadSym(c, p, x.Type()))
			return stepNext
		}
		unsupported("load through %T", v)
	case token.NOT:
		switch b := v.(type) {
		case Int:
			e.set(c, x, Int(b^1))
		case *Term:
			e.set(c, x, e.ts.Not(b))
		}
		return stepNext
	case token.SUB:
		w, _ := intInfo(x.Type())
		switch b := v.(type) {
		case Int:
			e.set(c, x, Int(-uint64(b)&wmask(w)))
		case *Term:
			e.set(c, x, e.ts.Un(OpNeg, b))
		}
		return stepNext
	case token.XOR:
		w, _ := intInfo(x.Type())
		switch b := v.(type) {
		case Int:
			e.set(c, x, Int(^uint64(b)&wmask(w)))
		case *Term:
			e.set(c, x, e.ts.Un(OpNot, b))
		}
		return stepNext
	}
	unsupported("unop %s", x.Op)
	return stepStop
}

// loadSym loads element Idx of a constant scalar table as an ite term.
func (e *Engine) loadSym(c *ctx, p SymPtr, t types.Type) Value {
	o := c.st.heap.objs[p.Obj]
	w := termW(t)
	vals := make([]uint64, p.N)
	for i := int32(0); i < p.N; i++ {
		iv, ok := o.cells[p.Off+i*p.ESz].(Int)
		if !ok {
			unsupported("symbolic index into non-constant table")
		}
		vals[i] = uint64(iv)
	}
	return e.tableTerm(c.st, p.Idx, vals, w)
}

// tableTerm builds vals[idx] as a term (idx already known to be < len(vals)).
func (e *Engine) tableTerm(st *State, idx *Term, vals []uint64, w uint8) *Term {
	if vi := idx.SingleVar(); vi >= 0 && e.ts.Vars[vi].W == 8 {
		// group variable values by result, emit range predicates
		vt := e.ts.varT[vi]
		_, iv := e.ts.ValuesOf(idx, fullMask)
		byRes := map[uint64]Mask{}
		for k, m := range iv {
			if int(k) < len(vals) {
				r := vals[k]
				byRes[r] = byRes[r].Or(m)
			}
		}
		keys := make([]uint64, 0, len(byRes))
		for k := range byRes {
			keys = append(keys, k)
		}
		sort.Slice(keys, func(i, j int) bool {
			ci, cj := byRes[keys[i]].Count(), byRes[keys[j]].Count()
			if ci != cj {
				return ci > cj
			}
			return keys[i] < keys[j]
		})
		res := e.ts.Const(w, keys[0])
		for _, k := range keys[1:] {
			res = e.ts.Ite(e.maskPred(vt, byRes[k]), e.ts.Const(w, k), res)
		}
		return res
	}
	res := e.ts.Const(w, vals[len(vals)-1])
	for i := len(vals) - 2; i >= 0; i-- {
		res = e.ts.Ite(e.ts.Cmp(OpEq, idx, e.ts.Const(idx.W, uint64(i))), e.ts.Const(w, vals[i]), res)
	}
	return res
}

// maskPred builds the predicate "8-bit variable v ∈ m" from ranges.
func (e *Engine) maskPred(v *Term, m Mask) *Term {
	res := e.ts.False
	x := 0
	for x < 256 {
		if !m.Has(x) {
			x++
			continue
		}
		lo := x
		for x < 256 && m.Has(x) {
			x++
		}
		hi := x - 1
		var p *Term
		if lo == hi {
			p = e.ts.Cmp(OpEq, v, e.ts.Const(8, uint64(lo)))
		} else {
			p = e.ts.And(e.ts.Cmp(OpULe, e.ts.Const(8, uint64(lo)), v), e.ts.Cmp(OpULe, v, e.ts.Const(8, uint64(hi))))
		}
		res = e.ts.Or(res, p)
	}
	return res
}

func (e *Engine) doConvert(c *ctx, x *ssa.Convert) int {
	v := e.get(c, x.X)
	from, to := x.X.Type(), x.Type()
	fb, fok := from.Underlying().(*types.Basic)
	tb, tok := to.Underlying().(*types.Basic)
	switch {
	case fok && tok && fb.Info()&types.IsInteger != 0 && tb.Info()&types.IsInteger != 0:
		fw, fs := intInfo(from)
		tw, _ := intInfo(to)
		switch b := v.(type) {
		case Int:
			u := uint64(b)
			if fs && tw > fw {
				u = uint64(sext(u, fw))
			}
			e.set(c, x, Int(u&wmask(tw)))
		case *Term:
			e.set(c, x, e.ts.Resize(b, tw, fs))
		}
		return stepNext
	case fok && fb.Info()&types.IsString != 0:
		// string -> []byte
		if _, isSl := to.Underlying().(*types.Slice); isSl {
			switch s := v.(type) {
			case Str:
				cells := make([]Value, len(s))
				for i := 0; i < len(s); i++ {
					cells[i] = Int(s[i])
				}
				id := c.st.heap.Alloc(cells, nil, "bytes:"+string(s), false)
				c.st.allocLog = append(c.st.allocLog, id)
				e.set(c, x, Slice{Obj: id, Len: int32(len(s)), Cap: int32(len(s)), ESz: 1})
				return stepNext
			case SymStr:
				src := s.S
				cells := make([]Value, src.Len)
				o := c.st.heap.objs[src.Obj]
				copy(cells, o.cells[src.Off:src.Off+src.Len])
				id := c.st.heap.Alloc(cells, nil, "bytes:sym", false)
				c.st.allocLog = append(c.st.allocLog, id)
				e.set(c, x, Slice{Obj: id, Len: src.Len, Cap: src.Len, ESz: 1})
				return stepNext
			}
		}
	case tok && tb.Info()&types.IsString != 0:
		if sl, isSl := v.(Slice); isSl {
			e.set(c, x, e.sliceToString(c.st, sl))
			return stepNext
		}
	}
	unsupported("convert %s -> %s at %s", from, to, e.pos(x))
	return stepStop
}

func (e *Engine) sliceToString(st *State, sl Slice) Value {
	if sl.Len == 0 {
		return Str("")
	}
	o := st.heap.objs[sl.Obj]
	bs := make([]byte, sl.Len)
	allC := true
	for i := int32(0); i < sl.Len; i++ {
		iv, ok := o.cells[sl.Off+i].(Int)
		if !ok {
			allC = false
			break
		}
		bs[i] = byte(iv)
	}
	if allC {
		return Str(bs)
	}
	cells := make([]Value, sl.Len)
	copy(cells, o.cells[sl.Off:sl.Off+sl.Len])
	id := st.heap.Alloc(cells, nil, "symstr", false)
	st.allocLog = append(st.allocLog, id)
	return SymStr{S: Slice{Obj: id, Len: sl.Len, Cap: sl.Len, ESz: 1}}
}

var cmpOps = map[token.Token]bool{token.EQL: true, token.NEQ: true, token.LSS: true, token.LEQ: true, token.GTR: true, token.GEQ: true}

func (e *Engine) doBinOp(c *ctx, x *ssa.BinOp, idx int) int {
	a, b := e.get(c, x.X), e.get(c, x.Y)
	t := x.X.Type()
	switch t.Underlying().(type) {
	case *types.Basic:
		bt := t.Underlying().(*types.Basic)
		if bt.Info()&types.IsString != 0 {
			sa, oka := a.(Str)
			sb, okb := b.(Str)
			if !oka || !okb {
				unsupported("string op on symbolic string at %s", e.pos(x))
			}
			switch x.Op {
			case token.ADD:
				e.set(c, x, Str(sa+sb))
			case token.EQL:
				e.set(c, x, boolInt(sa == sb))
			case token.NEQ:
				e.set(c, x, boolInt(sa != sb))
			case token.LSS:
				e.set(c, x, boolInt(sa < sb))
			default:
				unsupported("string op %s", x.Op)
			}
			return stepNext
		}
		if bt.Kind() == types.UntypedNil {
			unsupported("untyped nil binop")
		}
		return e.intBinOp(c, x, a, b)
	case *types.Pointer:
		pa, pb := a.(Ptr), b.(Ptr)
		eq := pa == pb || (pa.Obj < 0 && pb.Obj < 0)
		if x.Op == token.NEQ {
			eq = !eq
		}
		e.set(c, x, boolInt(eq))
		return stepNext
	case *types.Slice:
		sa, sb := a.(Slice), b.(Slice)
		eq := sa.Obj < 0 && sb.Obj < 0
		if !(sa.Obj < 0 || sb.Obj < 0) {
			unsupported("slice comparison")
		}
		if x.Op == token.NEQ {
			eq = !eq
		}
		e.set(c, x, boolInt(eq))
		return stepNext
	case *types.Interface:
		ia, ib := a.(Iface), b.(Iface)
		var eq bool
		switch {
		case ia.T == nil || ib.T == nil:
			eq = ia.T == nil && ib.T == nil
		case !types.Identical(ia.T, ib.T):
			eq = false
		default:
			if !valEq(ia.V, ib.V) {
				eq = false
			} else {
				if _, sym := ia.V.(*Term); sym {
					unsupported("symbolic interface comparison")
				}
				eq = true
			}
		}
		if x.Op == token.NEQ {
			eq = !eq
		}
		e.set(c, x, boolInt(eq))
		return stepNext
	case *types.Struct, *types.Array:
		aa, ab := a.(Agg), b.(Agg)
		res := e.ts.True
		for i := range aa {
			switch xa := aa[i].(type) {
			case Int:
				if xb, ok := ab[i].(Int); ok {
					if xa != xb {
						res = e.ts.False
					}
					continue
				}
				tb := ab[i].(*Term)
				res = e.ts.And(res, e.ts.Cmp(OpEq, e.ts.Const(tb.W, uint64(xa)), tb))
			case *Term:
				res = e.ts.And(res, e.ts.Cmp(OpEq, xa, e.toTerm(ab[i], xa.W)))
			default:
				if !valEq(aa[i], ab[i]) {
					res = e.ts.False
				}
			}
		}
		if x.Op == token.NEQ {
			res = e.ts.Not(res)
		}
		if res.IsConst() {
			e.set(c, x, Int(res.C))
		} else {
			e.set(c, x, res)
		}
		return stepNext
	case *types.Signature:
		fa, fb := a.(Func), b.(Func)
		eq := fa.Fn == nil && fb.Fn == nil
		if x.Op == token.NEQ {
			eq = !eq
		}
		e.set(c, x, boolInt(eq))
		return stepNext
	}
	unsupported("binop on %s at %s", t, e.pos(x))
	return stepStop
}

func boolInt(b bool) Int {
	if b {
		return 1
	}
	return 0
}

func (e *Engine) intBinOp(c *ctx, x *ssa.BinOp, a, b Value) int {
	t := x.X.Type()
	if isBool(t) {
		ai, aok := a.(Int)
		bi, bok := b.(Int)
		if aok && bok {
			var r bool
			switch x.Op {
			case token.EQL:
				r = ai == bi
			case token.NEQ:
				r = ai != bi
			case token.AND:
				r = ai&bi != 0
			case token.OR:
				r = ai|bi != 0
			default:
				unsupported("bool op %s", x.Op)
			}
			e.set(c, x, boolInt(r))
			return stepNext
		}
		ta, tb := e.toTerm(a, 0), e.toTerm(b, 0)
		switch x.Op {
		case token.EQL:
			e.set(c, x, e.ts.Cmp(OpEq, ta, tb))
		case token.NEQ:
			e.set(c, x, e.ts.Not(e.ts.Cmp(OpEq, ta, tb)))
		case token.AND:
			e.set(c, x, e.ts.And(ta, tb))
		case token.OR:
			e.set(c, x, e.ts.Or(ta, tb))
		default:
			unsupported("bool op %s", x.Op)
		}
		return stepNext
	}
	w, signed := intInfo(t)
	ai, aok := a.(Int)
	bi, bok := b.(Int)
	isShift := x.Op == token.SHL || x.Op == token.SHR
	if aok && bok {
		ua, ub := uint64(ai), uint64(bi)
		if isShift {
			// shift count has its own type
			_, ys := intInfo(x.Y.Type())
			yw, _ := intInfo(x.Y.Type())
			if ys && sext(ub, yw) < 0 {
				e.fail(c, "panic", "panic:negative-shift", nil, x, "")
				return stepStop
			}
		}
		if cmpOps[x.Op] {
			var r bool
			switch x.Op {
			case token.EQL:
				r = ua == ub
			case token.NEQ:
				r = ua != ub
			case token.LSS:
				if signed {
					r = sext(ua, w) < sext(ub, w)
				} else {
					r = ua < ub
				}
			case token.LEQ:
				if signed {
					r = sext(ua, w) <= sext(ub, w)
				} else {
					r = ua <= ub
				}
			case token.GTR:
				if signed {
					r = sext(ua, w) > sext(ub, w)
				} else {
					r = ua > ub
				}
			case token.GEQ:
				if signed {
					r = sext(ua, w) >= sext(ub, w)
				} else {
					r = ua >= ub
				}
			}
			e.set(c, x, boolInt(r))
			return stepNext
		}
		var r uint64
		switch x.Op {
		case token.ADD:
			r = ua + ub
		case token.SUB:
			r = ua - ub
		case token.MUL:
			r = ua * ub
		case token.QUO, token.REM:
			if ub == 0 {
				e.fail(c, "panic", "panic:div-by-zero", nil, x, "")
				return stepStop
			}
			op := OpUDiv
			if x.Op == token.REM {
				op = OpURem
			}
			if signed {
				op = OpSDiv
				if x.Op == token.REM {
					op = OpSRem
				}
			}
			r, _ = foldBin(op, w, ua, ub)
		case token.AND:
			r = ua & ub
		case token.OR:
			r = ua | ub
		case token.XOR:
			r = ua ^ ub
		case token.AND_NOT:
			r = ua &^ ub
		case token.SHL:
			r, _ = foldBin(OpShl, w, ua, min(ub, 64))
		case token.SHR:
			if signed {
				r, _ = foldBin(OpAShr, w, ua, min(ub, 64))
			} else {
				r, _ = foldBin(OpLShr, w, ua, min(ub, 64))
			}
		default:
			unsupported("int op %s", x.Op)
		}
		e.set(c, x, Int(r&wmask(w)))
		return stepNext
	}
	ta := e.toTerm(a, w)
	var tb *Term
	if isShift {
		yw, _ := intInfo(x.Y.Type())
		tb = e.toTerm(b, yw)
		if yw != w {
			if tb.IsConst() {
				tb = e.ts.Const(w, min(tb.C, uint64(w)))
			} else if yw < w {
				tb = e.ts.Resize(tb, w, false)
			} else {
				// saturate the shift count to w
				big := e.ts.Cmp(OpULe, e.ts.Const(yw, uint64(w)), tb)
				tb = e.ts.Ite(big, e.ts.Const(w, uint64(w)), e.ts.Resize(tb, w, false))
			}
		}
	} else {
		tb = e.toTerm(b, w)
	}
	if cmpOps[x.Op] {
		var r *Term
		lt, le := OpULt, OpULe
		if signed {
			lt, le = OpSLt, OpSLe
		}
		switch x.Op {
		case token.EQL:
			r = e.ts.Cmp(OpEq, ta, tb)
		case token.NEQ:
			r = e.ts.Not(e.ts.Cmp(OpEq, ta, tb))
		case token.LSS:
			r = e.ts.Cmp(lt, ta, tb)
		case token.LEQ:
			r = e.ts.Cmp(le, ta, tb)
		case token.GTR:
			r = e.ts.Cmp(lt, tb, ta)
		case token.GEQ:
			r = e.ts.Cmp(le, tb, ta)
		}
		if r.IsConst() {
			e.set(c, x, Int(r.C))
		} else {
			e.set(c, x, r)
		}
		return stepNext
	}
	var r *Term
	switch x.Op {
	case token.ADD:
		r = e.ts.Bin(OpAdd, ta, tb)
	case token.SUB:
		r = e.ts.Bin(OpSub, ta, tb)
	case token.MUL:
		r = e.ts.Bin(OpMul, ta, tb)
	case token.QUO, token.REM:
		nz := e.ts.Not(e.ts.Cmp(OpEq, tb, e.ts.Const(w, 0)))
		if !e.requireOrPanic(c, nz, x, "div-by-zero") {
			return stepStop
		}
		op := OpUDiv
		if x.Op == token.REM {
			op = OpURem
		}
		if signed {
			op = OpSDiv
			if x.Op == token.REM {
				op = OpSRem
			}
		}
		r = e.ts.Bin(op, ta, tb)
	case token.AND:
		r = e.ts.Bin(OpAnd, ta, tb)
	case token.OR:
		r = e.ts.Bin(OpOr, ta, tb)
	case token.XOR:
		r = e.ts.Bin(OpXor, ta, tb)
	case token.AND_NOT:
		r = e.ts.Bin(OpAnd, ta, e.ts.Un(OpNot, tb))
	case token.SHL:
		r = e.ts.Bin(OpShl, ta, tb)
	case token.SHR:
		if signed {
			r = e.ts.Bin(OpAShr, ta, tb)
		} else {
			r = e.ts.Bin(OpLShr, ta, tb)
		}
	default:
		unsupported("int op %s", x.Op)
	}
	if r.IsConst() {
		e.set(c, x, Int(r.C))
	} else {
		e.set(c, x, r)
	}
	return stepNext
}

func (e *Engine) doIndexAddr(c *ctx, x *ssa.IndexAddr, idx int) int {
	base := e.get(c, x.X)
	var obj, off, n, esz int32
	switch b := base.(type) {
	case Slice:
		obj, off, n, esz = b.Obj, b.Off, b.Len, b.ESz
	case Ptr:
		at := x.X.Type().Underlying().(*types.Pointer).Elem().Underlying().(*types.Array)
		if b.Obj < 0 {
			e.fail(c, "panic", "panic:nil-deref", nil, x, "")
			return stepStop
		}
		obj, off, n = b.Obj, b.Off, int32(at.Len())
		esz = int32(e.P.Lay.Of(at.Elem()).Size)
	default:
		unsupported("IndexAddr on %T", base)
	}
	iw, isg := intInfo(x.Index.Type())
	switch iv := e.get(c, x.Index).(type) {
	case Int:
		i := sext(uint64(iv), iw)
		if !isg {
			i = int64(uint64(iv))
			if uint64(iv) > 1<<40 {
				i = 1 << 40
			}
		}
		if i < 0 || i >= int64(n) {
			e.fail(c, "panic", "panic:index-out-of-range", nil, x, fmt.Sprintf("index %d len %d", i, n))
			return stepStop
		}
		e.set(c, x, Ptr{Obj: obj, Off: off + int32(i)*esz})
		return stepNext
	case *Term:
		// symbolic index: constant scalar table -> symbolic pointer, else split
		o := c.st.heap.objs[obj]
		table := esz == 1 && n > 0 && n <= 256
		if table {
			for i := int32(0); i < n; i++ {
				if _, ok := o.cells[off+i].(Int); !ok {
					table = false
					break
				}
			}
		}
		// must be used only by loads
		if table {
			for _, r := range *x.Referrers() {
				u, ok := r.(*ssa.UnOp)
				if !ok || u.Op != token.MUL {
					table = false
				}
			}
		}
		if table {
			var inb *Term
			if !isg && uint64(n) > wmask(iv.W) {
				inb = e.ts.True // every value of the index type is in range
			} else if isg {
				inb = e.ts.And(e.ts.Cmp(OpSLe, e.ts.Const(iv.W, 0), iv), e.ts.Cmp(OpSLt, iv, e.ts.Const(iv.W, uint64(n))))
			} else {
				inb = e.ts.Cmp(OpULt, iv, e.ts.Const(iv.W, uint64(n)))
			}
			if !e.requireOrPanic(c, inb, x, "index-out-of-range") {
				return stepStop
			}
			e.set(c, x, SymPtr{Obj: obj, Off: off, ESz: esz, N: n, Idx: iv})
			return stepNext
		}
		_, ok := e.needConcrete(c, x.Index, idx)
		if ok {
			panic("unreachable")
		}
		return stepStop
	}
	unsupported("IndexAddr index %T", e.get(c, x.Index))
	return stepStop
}

func (e *Engine) doIndex(c *ctx, x *ssa.Index, idx int) int {
	base := e.get(c, x.X)
	iw, isg := intInfo(x.Index.Type())
	var vals []Value
	switch b := base.(type) {
	case Str:
		vals = make([]Value, len(b))
		for i := 0; i < len(b); i++ {
			vals[i] = Int(b[i])
		}
	case SymStr:
		o := c.st.heap.objs[b.S.Obj]
		vals = o.cells[b.S.Off : b.S.Off+b.S.Len]
	case Agg:
		el := e.P.Lay.Of(x.Type())
		if el.Size != 1 || isAggregate(x.Type()) {
			i, ok := e.needConcrete(c, x.Index, idx)
			if !ok {
				return stepStop
			}
			n := len(b) / el.Size
			if int(i) >= n {
				e.fail(c, "panic", "panic:index-out-of-range", nil, x, "")
				return stepStop
			}
			e.set(c, x, append(Agg(nil), b[int(i)*el.Size:(int(i)+1)*el.Size]...))
			return stepNext
		}
		vals = b
	default:
		unsupported("Index on %T", base)
	}
	switch iv := e.get(c, x.Index).(type) {
	case Int:
		i := sext(uint64(iv), iw)
		if !isg {
			i = int64(min(uint64(iv), 1<<40))
		}
		if i < 0 || i >= int64(len(vals)) {
			e.fail(c, "panic", "panic:index-out-of-range", nil, x, "")
			return stepStop
		}
		e.set(c, x, vals[i])
		return stepNext
	case *Term:
		allC := true
		cv := make([]uint64, len(vals))
		for i, v := range vals {
			if ci, ok := v.(Int); ok {
				cv[i] = uint64(ci)
			} else {
				allC = false
			}
		}
		if !allC || len(vals) == 0 {
			_, _ = e.needConcrete(c, x.Index, idx)
			return stepStop
		}
		var inb *Term
		if !isg && uint64(len(vals)) > wmask(iv.W) {
			inb = e.ts.True
		} else if isg {
			inb = e.ts.And(e.ts.Cmp(OpSLe, e.ts.Const(iv.W, 0), iv), e.ts.Cmp(OpSLt, iv, e.ts.Const(iv.W, uint64(len(vals)))))
		} else {
			inb = e.ts.Cmp(OpULt, iv, e.ts.Const(iv.W, uint64(len(vals))))
		}
		if !e.requireOrPanic(c, inb, x, "index-out-of-range") {
			return stepStop
		}
		e.set(c, x, e.tableTerm(c.st, iv, cv, termW(x.Type())))
		return stepNext
	}
	unsupported("Index index")
	return stepStop
}

func (e *Engine) doSlice(c *ctx, x *ssa.Slice, idx int) int {
	base := e.get(c, x.X)
	var lo, hi, mx int64 = 0, -1, -1
	getInt := func(v ssa.Value) (int64, bool) {
		u, ok := e.needConcrete(c, v, idx)
		if !ok {
			return 0, false
		}
		w, sg := intInfo(v.Type())
		if sg {
			return sext(u, w), true
		}
		return int64(min(u, 1<<40)), true
	}
	if x.Low != nil {
		v, ok := getInt(x.Low)
		if !ok {
			return stepStop
		}
		lo = v
	}
	if x.High != nil {
		v, ok := getInt(x.High)
		if !ok {
			return stepStop
		}
		hi = v
	}
	if x.Max != nil {
		v, ok := getInt(x.Max)
		if !ok {
			return stepStop
		}
		mx = v
	}
	oob := func() int {
		e.fail(c, "panic", "panic:slice-bounds-out-of-range", nil, x, fmt.Sprintf("[%d:%d:%d]", lo, hi, mx))
		return stepStop
	}
	switch b := base.(type) {
	case Slice:
		if hi < 0 {
			hi = int64(b.Len)
		}
		if mx < 0 {
			mx = int64(b.Cap)
		}
		if lo < 0 || lo > hi || hi > mx || mx > int64(b.Cap) {
			return oob()
		}
		if b.Obj < 0 {
			e.set(c, x, nilSlice)
			return stepNext
		}
		e.set(c, x, Slice{Obj: b.Obj, Off: b.Off + int32(lo)*b.ESz, Len: int32(hi - lo), Cap: int32(mx - lo), ESz: b.ESz})
		return stepNext
	case Ptr:
		at := x.X.Type().Underlying().(*types.Pointer).Elem().Underlying().(*types.Array)
		n := at.Len()
		if hi < 0 {
			hi = n
		}
		if mx < 0 {
			mx = n
		}
		if b.Obj < 0 {
			e.fail(c, "panic", "panic:nil-deref", nil, x, "")
			return stepStop
		}
		if lo < 0 || lo > hi || hi > mx || mx > n {
			return oob()
		}
		esz := int32(e.P.Lay.Of(at.Elem()).Size)
		e.set(c, x, Slice{Obj: b.Obj, Off: b.Off + int32(lo)*esz, Len: int32(hi - lo), Cap: int32(mx - lo), ESz: esz})
		return stepNext
	case Str:
		if hi < 0 {
			hi = int64(len(b))
		}
		if lo < 0 || lo > hi || hi > int64(len(b)) {
			return oob()
		}
		e.set(c, x, b[lo:hi])
		return stepNext
	}
	unsupported("Slice of %T", base)
	return stepStop
}
