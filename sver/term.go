package main

// Hash-consed term DAG over bit-vectors and booleans, with constant folding,
// concrete evaluation, per-variable support sets, 256-value masks for
// single-byte predicates and an SMT-LIB2 printer.

import (
	"fmt"
	"math/bits"
	"strings"
)

type Op uint8

const (
	OpConst Op = iota // bit-vector constant (W>0) or boolean constant (W==0)
	OpVar
	OpAdd
	OpSub
	OpMul
	OpUDiv
	OpURem
	OpSDiv
	OpSRem
	OpAnd
	OpOr
	OpXor
	OpShl
	OpLShr
	OpAShr
	OpNot  // bitwise not
	OpNeg  // arithmetic negation
	OpZExt // to width W
	OpSExt
	OpTrunc // to width W (extract low bits)
	OpEq    // bool
	OpULt
	OpULe
	OpSLt
	OpSLe
	OpIte  // Args[0] bool, Args[1], Args[2] same sort
	OpBAnd // bool and
	OpBOr
	OpBNot
)

var opSMT = map[Op]string{
	OpAdd: "bvadd", OpSub: "bvsub", OpMul: "bvmul", OpUDiv: "bvudiv", OpURem: "bvurem",
	OpSDiv: "bvsdiv", OpSRem: "bvsrem", OpAnd: "bvand", OpOr: "bvor", OpXor: "bvxor",
	OpShl: "bvshl", OpLShr: "bvlshr", OpAShr: "bvashr", OpNot: "bvnot", OpNeg: "bvneg",
	OpEq: "=", OpULt: "bvult", OpULe: "bvule", OpSLt: "bvslt", OpSLe: "bvsle",
	OpIte: "ite", OpBAnd: "and", OpBOr: "or", OpBNot: "not",
}

// Term is a node of the DAG. W is the bit width; W == 0 means Bool.
type Term struct {
	Op   Op
	W    uint8
	ID   int32
	Args [3]*Term
	NArg uint8
	C    uint64 // constant value, or variable id for OpVar
	Sup  uint64 // support: bit i set if variable i (<64) occurs
	// scratch for evaluation
	stamp uint32
	val   uint64
	// cached 256-bit mask for single-variable 8-bit predicates
	mask    *Mask
	emitted bool
}

type Mask [4]uint64

func (m *Mask) Has(v int) bool { return m[v>>6]&(1<<(uint(v)&63)) != 0 }
func (m *Mask) Set(v int)      { m[v>>6] |= 1 << (uint(v) & 63) }
func (m Mask) And(o Mask) Mask { return Mask{m[0] & o[0], m[1] & o[1], m[2] & o[2], m[3] & o[3]} }
func (m Mask) Or(o Mask) Mask  { return Mask{m[0] | o[0], m[1] | o[1], m[2] | o[2], m[3] | o[3]} }
func (m Mask) AndNot(o Mask) Mask {
	return Mask{m[0] &^ o[0], m[1] &^ o[1], m[2] &^ o[2], m[3] &^ o[3]}
}
func (m Mask) Empty() bool { return m[0]|m[1]|m[2]|m[3] == 0 }
func (m Mask) Count() int {
	return bits.OnesCount64(m[0]) + bits.OnesCount64(m[1]) + bits.OnesCount64(m[2]) + bits.OnesCount64(m[3])
}
func (m Mask) First() int {
	for i := 0; i < 4; i++ {
		if m[i] != 0 {
			return i*64 + bits.TrailingZeros64(m[i])
		}
	}
	return -1
}

var fullMask = Mask{^uint64(0), ^uint64(0), ^uint64(0), ^uint64(0)}

type termKey struct {
	op      Op
	w       uint8
	a, b, c int32
	k       uint64
}

// VarInfo describes a solver variable.
type VarInfo struct {
	Name string
	W    uint8 // 0 = Bool
	Kind string
}

type Terms struct {
	tab    map[termKey]*Term
	nodes  []*Term
	Vars   []VarInfo
	varT   []*Term
	True   *Term
	False  *Term
	stamp  uint32
	curVar int
	curVal uint64
}

func NewTerms() *Terms {
	t := &Terms{tab: map[termKey]*Term{}}
	t.True = t.mk(OpConst, 0, 1, nil, nil, nil)
	t.False = t.mk(OpConst, 0, 0, nil, nil, nil)
	return t
}

func wmask(w uint8) uint64 {
	if w >= 64 {
		return ^uint64(0)
	}
	return (uint64(1) << w) - 1
}

func sext(v uint64, w uint8) int64 {
	if w >= 64 {
		return int64(v)
	}
	sh := 64 - uint(w)
	return int64(v<<sh) >> sh
}

func (ts *Terms) mk(op Op, w uint8, k uint64, a, b, c *Term) *Term {
	key := termKey{op: op, w: w, k: k, a: -1, b: -1, c: -1}
	if a != nil {
		key.a = a.ID
	}
	if b != nil {
		key.b = b.ID
	}
	if c != nil {
		key.c = c.ID
	}
	if t, ok := ts.tab[key]; ok {
		return t
	}
	t := &Term{Op: op, W: w, C: k, ID: int32(len(ts.nodes))}
	if a != nil {
		t.Args[0] = a
		t.NArg = 1
		t.Sup |= a.Sup
	}
	if b != nil {
		t.Args[1] = b
		t.NArg = 2
		t.Sup |= b.Sup
	}
	if c != nil {
		t.Args[2] = c
		t.NArg = 3
		t.Sup |= c.Sup
	}
	if op == OpVar {
		if k >= 64 {
			panic("too many solver variables (max 64)")
		}
		t.Sup = 1 << k
	}
	ts.tab[key] = t
	ts.nodes = append(ts.nodes, t)
	return t
}

func (ts *Terms) NewVar(name string, w uint8, kind string) *Term {
	id := len(ts.Vars)
	ts.Vars = append(ts.Vars, VarInfo{Name: name, W: w, Kind: kind})
	t := ts.mk(OpVar, w, uint64(id), nil, nil, nil)
	ts.varT = append(ts.varT, t)
	return t
}

func (ts *Terms) Const(w uint8, v uint64) *Term {
	if w == 0 {
		if v != 0 {
			return ts.True
		}
		return ts.False
	}
	return ts.mk(OpConst, w, v&wmask(w), nil, nil, nil)
}

func (ts *Terms) Bool(b bool) *Term {
	if b {
		return ts.True
	}
	return ts.False
}

func (t *Term) IsConst() bool { return t.Op == OpConst }

func foldBin(op Op, w uint8, a, b uint64) (uint64, bool) {
	m := wmask(w)
	switch op {
	case OpAdd:
		return (a + b) & m, true
	case OpSub:
		return (a - b) & m, true
	case OpMul:
		return (a * b) & m, true
	case OpUDiv:
		if b == 0 {
			return m, true
		}
		return (a / b) & m, true
	case OpURem:
		if b == 0 {
			return a, true
		}
		return (a % b) & m, true
	case OpSDiv:
		if b == 0 {
			if sext(a, w) < 0 {
				return 1, true
			}
			return m, true
		}
		sa, sb := sext(a, w), sext(b, w)
		if sb == -1 {
			return uint64(-sa) & m, true
		}
		return uint64(sa/sb) & m, true
	case OpSRem:
		if b == 0 {
			return a, true
		}
		sa, sb := sext(a, w), sext(b, w)
		if sb == -1 {
			return 0, true
		}
		return uint64(sa%sb) & m, true
	case OpAnd:
		return a & b, true
	case OpOr:
		return a | b, true
	case OpXor:
		return a ^ b, true
	case OpShl:
		if b >= uint64(w) {
			return 0, true
		}
		return (a << b) & m, true
	case OpLShr:
		if b >= uint64(w) {
			return 0, true
		}
		return (a >> b) & m, true
	case OpAShr:
		sa := sext(a, w)
		if b >= uint64(w) {
			b = uint64(w) - 1
		}
		return uint64(sa>>b) & m, true
	}
	return 0, false
}

func foldCmp(op Op, w uint8, a, b uint64) bool {
	switch op {
	case OpEq:
		return a == b
	case OpULt:
		return a < b
	case OpULe:
		return a <= b
	case OpSLt:
		return sext(a, w) < sext(b, w)
	case OpSLe:
		return sext(a, w) <= sext(b, w)
	}
	panic("foldCmp")
}

// Bin builds a bit-vector binary operation of the operands' width.
func (ts *Terms) Bin(op Op, a, b *Term) *Term {
	if a.W != b.W {
		panic(fmt.Sprintf("Bin width mismatch %d %d op %d", a.W, b.W, op))
	}
	w := a.W
	if a.IsConst() && b.IsConst() {
		v, _ := foldBin(op, w, a.C, b.C)
		return ts.Const(w, v)
	}
	// light identities
	switch op {
	case OpAdd, OpOr, OpXor:
		if a.IsConst() && a.C == 0 {
			return b
		}
		if b.IsConst() && b.C == 0 {
			return a
		}
	case OpSub, OpShl, OpLShr, OpAShr:
		if b.IsConst() && b.C == 0 {
			return a
		}
	case OpAnd:
		if a.IsConst() && a.C == 0 || b.IsConst() && b.C == 0 {
			return ts.Const(w, 0)
		}
		if a.IsConst() && a.C == wmask(w) {
			return b
		}
		if b.IsConst() && b.C == wmask(w) {
			return a
		}
	case OpMul:
		if a.IsConst() && a.C == 1 {
			return b
		}
		if b.IsConst() && b.C == 1 {
			return a
		}
		if a.IsConst() && a.C == 0 || b.IsConst() && b.C == 0 {
			return ts.Const(w, 0)
		}
	}
	// canonical order for commutative ops: constant second
	switch op {
	case OpAdd, OpMul, OpAnd, OpOr, OpXor:
		if a.IsConst() || (!b.IsConst() && a.ID > b.ID) {
			a, b = b, a
		}
	}
	return ts.mk(op, w, 0, a, b, nil)
}

func (ts *Terms) Cmp(op Op, a, b *Term) *Term {
	if a.W != b.W {
		panic(fmt.Sprintf("Cmp width mismatch %d %d", a.W, b.W))
	}
	if a.W == 0 { // boolean equality
		if op != OpEq {
			panic("bool cmp")
		}
		if a.IsConst() {
			if a.C != 0 {
				return b
			}
			return ts.Not(b)
		}
		if b.IsConst() {
			if b.C != 0 {
				return a
			}
			return ts.Not(a)
		}
		if a == b {
			return ts.True
		}
		if a.ID > b.ID {
			a, b = b, a
		}
		return ts.mk(OpEq, 0, 0, a, b, nil)
	}
	if a.IsConst() && b.IsConst() {
		return ts.Bool(foldCmp(op, a.W, a.C, b.C))
	}
	if a == b {
		switch op {
		case OpEq, OpULe, OpSLe:
			return ts.True
		default:
			return ts.False
		}
	}
	if op == OpEq {
		if a.IsConst() || (!b.IsConst() && a.ID > b.ID) {
			a, b = b, a
		}
		// eq(zext(x), const) with const out of range
		if b.IsConst() && a.Op == OpZExt {
			x := a.Args[0]
			if b.C > wmask(x.W) {
				return ts.False
			}
			return ts.Cmp(OpEq, x, ts.Const(x.W, b.C))
		}
		// eq(ite(c, k1, k2), k) with constants
		if b.IsConst() && a.Op == OpIte && a.Args[1].IsConst() && a.Args[2].IsConst() {
			e1 := a.Args[1].C == b.C
			e2 := a.Args[2].C == b.C
			switch {
			case e1 && e2:
				return ts.True
			case e1:
				return a.Args[0]
			case e2:
				return ts.Not(a.Args[0])
			default:
				return ts.False
			}
		}
	}
	return ts.mk(op, 0, 0, a, b, nil)
}

func (ts *Terms) Un(op Op, a *Term) *Term {
	if a.IsConst() {
		switch op {
		case OpNot:
			return ts.Const(a.W, ^a.C)
		case OpNeg:
			return ts.Const(a.W, -a.C)
		}
	}
	if a.Op == op { // double negation
		return a.Args[0]
	}
	return ts.mk(op, a.W, 0, a, nil, nil)
}

// Resize converts a bit-vector to width w (zero/sign extension or truncation).
func (ts *Terms) Resize(a *Term, w uint8, signed bool) *Term {
	if a.W == w {
		return a
	}
	if a.IsConst() {
		if w > a.W && signed {
			return ts.Const(w, uint64(sext(a.C, a.W)))
		}
		return ts.Const(w, a.C)
	}
	if w < a.W {
		// trunc(zext(x)) where x.W <= w  -> resize x
		if (a.Op == OpZExt || a.Op == OpSExt) && a.Args[0].W <= w {
			return ts.Resize(a.Args[0], w, a.Op == OpSExt)
		}
		return ts.mk(OpTrunc, w, 0, a, nil, nil)
	}
	if signed {
		return ts.mk(OpSExt, w, 0, a, nil, nil)
	}
	if a.Op == OpZExt {
		return ts.mk(OpZExt, w, 0, a.Args[0], nil, nil)
	}
	return ts.mk(OpZExt, w, 0, a, nil, nil)
}

func (ts *Terms) Not(a *Term) *Term {
	if a.W != 0 {
		panic("Not on non-bool")
	}
	if a.IsConst() {
		return ts.Bool(a.C == 0)
	}
	if a.Op == OpBNot {
		return a.Args[0]
	}
	return ts.mk(OpBNot, 0, 0, a, nil, nil)
}

func (ts *Terms) And(a, b *Term) *Term {
	if a.W != 0 || b.W != 0 {
		panic("And on non-bool")
	}
	if a.IsConst() {
		if a.C != 0 {
			return b
		}
		return ts.False
	}
	if b.IsConst() {
		if b.C != 0 {
			return a
		}
		return ts.False
	}
	if a == b {
		return a
	}
	if (a.Op == OpBNot && a.Args[0] == b) || (b.Op == OpBNot && b.Args[0] == a) {
		return ts.False
	}
	return ts.mk(OpBAnd, 0, 0, a, b, nil)
}

func (ts *Terms) Or(a, b *Term) *Term {
	if a.IsConst() {
		if a.C != 0 {
			return ts.True
		}
		return b
	}
	if b.IsConst() {
		if b.C != 0 {
			return ts.True
		}
		return a
	}
	if a == b {
		return a
	}
	if (a.Op == OpBNot && a.Args[0] == b) || (b.Op == OpBNot && b.Args[0] == a) {
		return ts.True
	}
	// diamond: (P & c) | (P & !c) -> P
	if a.Op == OpBAnd && b.Op == OpBAnd && a.Args[0] == b.Args[0] {
		x, y := a.Args[1], b.Args[1]
		if (x.Op == OpBNot && x.Args[0] == y) || (y.Op == OpBNot && y.Args[0] == x) {
			return a.Args[0]
		}
	}
	if a.ID > b.ID {
		a, b = b, a
	}
	return ts.mk(OpBOr, 0, 0, a, b, nil)
}

func (ts *Terms) Ite(c, a, b *Term) *Term {
	if c.IsConst() {
		if c.C != 0 {
			return a
		}
		return b
	}
	if a == b {
		return a
	}
	if a.W != b.W {
		panic("Ite sort mismatch")
	}
	if a.W == 0 {
		// boolean ite
		if a.IsConst() && b.IsConst() {
			if a.C != 0 {
				return c
			}
			return ts.Not(c)
		}
		return ts.Or(ts.And(c, a), ts.And(ts.Not(c), b))
	}
	return ts.mk(OpIte, a.W, 0, c, a, b)
}

// ---------- evaluation ----------

// Eval evaluates t under the assignment env (indexed by variable id).
func (ts *Terms) Eval(t *Term, env []uint64) uint64 {
	ts.stamp++
	if ts.stamp == 0 {
		for _, n := range ts.nodes {
			n.stamp = 0
		}
		ts.stamp = 1
	}
	return ts.eval(t, env)
}

// EvalMany evaluates several terms under the same env (shared memo).
func (ts *Terms) EvalBegin() {
	ts.stamp++
	if ts.stamp == 0 {
		for _, n := range ts.nodes {
			n.stamp = 0
		}
		ts.stamp = 1
	}
}
func (ts *Terms) EvalNext(t *Term, env []uint64) uint64 { return ts.eval(t, env) }

func (ts *Terms) eval(t *Term, env []uint64) uint64 {
	if t.Op == OpConst {
		return t.C
	}
	if t.stamp == ts.stamp {
		return t.val
	}
	var v uint64
	switch t.Op {
	case OpVar:
		if int(t.C) < len(env) {
			v = env[t.C] & wmask1(t.W)
		}
	case OpNot:
		v = ^ts.eval(t.Args[0], env) & wmask(t.W)
	case OpNeg:
		v = -ts.eval(t.Args[0], env) & wmask(t.W)
	case OpZExt:
		v = ts.eval(t.Args[0], env)
	case OpSExt:
		v = uint64(sext(ts.eval(t.Args[0], env), t.Args[0].W)) & wmask(t.W)
	case OpTrunc:
		v = ts.eval(t.Args[0], env) & wmask(t.W)
	case OpEq, OpULt, OpULe, OpSLt, OpSLe:
		a := ts.eval(t.Args[0], env)
		b := ts.eval(t.Args[1], env)
		if foldCmp(t.Op, t.Args[0].W, a, b) {
			v = 1
		}
	case OpIte:
		if ts.eval(t.Args[0], env) != 0 {
			v = ts.eval(t.Args[1], env)
		} else {
			v = ts.eval(t.Args[2], env)
		}
	case OpBAnd:
		if ts.eval(t.Args[0], env) != 0 && ts.eval(t.Args[1], env) != 0 {
			v = 1
		}
	case OpBOr:
		if ts.eval(t.Args[0], env) != 0 || ts.eval(t.Args[1], env) != 0 {
			v = 1
		}
	case OpBNot:
		if ts.eval(t.Args[0], env) == 0 {
			v = 1
		}
	default:
		a := ts.eval(t.Args[0], env)
		b := ts.eval(t.Args[1], env)
		v, _ = foldBin(t.Op, t.W, a, b)
	}
	t.stamp = ts.stamp
	t.val = v
	return v
}

func wmask1(w uint8) uint64 {
	if w == 0 {
		return 1
	}
	return wmask(w)
}

// SingleVar returns the variable id if t depends on exactly one variable
// with id < 63, else -1.
func (t *Term) SingleVar() int {
	s := t.Sup
	if s == 0 || s&(s-1) != 0 {
		return -1
	}
	return bits.TrailingZeros64(s)
}

// MaskOf returns, for a boolean term depending on a single 8-bit variable,
// the set of values of that variable for which the term is true.
func (ts *Terms) MaskOf(t *Term) (int, *Mask) {
	v := t.SingleVar()
	if v < 0 || ts.Vars[v].W != 8 {
		return -1, nil
	}
	if t.mask != nil {
		return v, t.mask
	}
	env := make([]uint64, v+1)
	var m Mask
	for x := 0; x < 256; x++ {
		env[v] = uint64(x)
		if ts.Eval(t, env) != 0 {
			m.Set(x)
		}
	}
	t.mask = &m
	return v, t.mask
}

// ValuesOf enumerates the values of a bit-vector term with single 8-bit
// support over the allowed values of its variable.
func (ts *Terms) ValuesOf(t *Term, allowed Mask) (int, map[uint64]Mask) {
	v := t.SingleVar()
	if v < 0 || ts.Vars[v].W != 8 {
		return -1, nil
	}
	env := make([]uint64, v+1)
	res := map[uint64]Mask{}
	for x := 0; x < 256; x++ {
		if !allowed.Has(x) {
			continue
		}
		env[v] = uint64(x)
		r := ts.Eval(t, env)
		m := res[r]
		m.Set(x)
		res[r] = m
	}
	return v, res
}

// ---------- SMT-LIB2 output ----------

func (ts *Terms) VarDecls() string {
	var sb strings.Builder
	for _, v := range ts.Vars {
		if v.W == 0 {
			fmt.Fprintf(&sb, "(declare-const %s Bool)\n", v.Name)
		} else {
			fmt.Fprintf(&sb, "(declare-const %s (_ BitVec %d))\n", v.Name, v.W)
		}
	}
	return sb.String()
}

func sortStr(w uint8) string {
	if w == 0 {
		return "Bool"
	}
	return fmt.Sprintf("(_ BitVec %d)", w)
}

func (ts *Terms) ref(t *Term) string {
	switch t.Op {
	case OpConst:
		if t.W == 0 {
			if t.C != 0 {
				return "true"
			}
			return "false"
		}
		return fmt.Sprintf("(_ bv%d %d)", t.C, t.W)
	case OpVar:
		return ts.Vars[t.C].Name
	}
	return fmt.Sprintf("n%d", t.ID)
}

// Defs appends define-fun lines for every not yet emitted node under t.
func (ts *Terms) Defs(t *Term, sb *strings.Builder) {
	if t.emitted || t.Op == OpConst || t.Op == OpVar {
		return
	}
	// iterative post-order
	type fr struct {
		t *Term
		i uint8
	}
	stack := []fr{{t, 0}}
	for len(stack) > 0 {
		f := &stack[len(stack)-1]
		if f.t.emitted || f.t.Op == OpConst || f.t.Op == OpVar {
			stack = stack[:len(stack)-1]
			continue
		}
		if f.i < f.t.NArg {
			a := f.t.Args[f.i]
			f.i++
			if !a.emitted && a.Op != OpConst && a.Op != OpVar {
				stack = append(stack, fr{a, 0})
			}
			continue
		}
		n := f.t
		stack = stack[:len(stack)-1]
		n.emitted = true
		ts.defLine(n, sb)
	}
}

func (ts *Terms) defLine(n *Term, sb *strings.Builder) {
	fmt.Fprintf(sb, "(define-fun n%d () %s ", n.ID, sortStr(n.W))
	switch n.Op {
	case OpZExt:
		fmt.Fprintf(sb, "((_ zero_extend %d) %s)", n.W-n.Args[0].W, ts.ref(n.Args[0]))
	case OpSExt:
		fmt.Fprintf(sb, "((_ sign_extend %d) %s)", n.W-n.Args[0].W, ts.ref(n.Args[0]))
	case OpTrunc:
		fmt.Fprintf(sb, "((_ extract %d 0) %s)", n.W-1, ts.ref(n.Args[0]))
	default:
		sb.WriteString("(")
		sb.WriteString(opSMT[n.Op])
		for i := uint8(0); i < n.NArg; i++ {
			sb.WriteString(" ")
			sb.WriteString(ts.ref(n.Args[i]))
		}
		sb.WriteString(")")
	}
	sb.WriteString(")\n")
}

// DefsAll returns define-fun lines for every node under t (independent of
// what was sent to the incremental solver).
func (ts *Terms) DefsAll(t *Term, sb *strings.Builder) {
	seen := map[*Term]bool{}
	var rec func(n *Term)
	var order []*Term
	// iterative DFS to avoid deep recursion
	type fr struct {
		t *Term
		i uint8
	}
	stack := []fr{{t, 0}}
	for len(stack) > 0 {
		f := &stack[len(stack)-1]
		if seen[f.t] || f.t.Op == OpConst || f.t.Op == OpVar {
			stack = stack[:len(stack)-1]
			continue
		}
		if f.i < f.t.NArg {
			a := f.t.Args[f.i]
			f.i++
			if !seen[a] && a.Op != OpConst && a.Op != OpVar {
				stack = append(stack, fr{a, 0})
			}
			continue
		}
		seen[f.t] = true
		order = append(order, f.t)
		stack = stack[:len(stack)-1]
	}
	_ = rec
	for _, n := range order {
		ts.defLine(n, sb)
	}
}

// ResetEmitted forgets which nodes were sent (after a solver restart).
func (ts *Terms) ResetEmitted() {
	for _, n := range ts.nodes {
		n.emitted = false
	}
}

func (ts *Terms) Size() int { return len(ts.nodes) }

// Show renders a term (to a limited depth) for diagnostics.
func (ts *Terms) Show(t *Term, depth int) string {
	switch t.Op {
	case OpConst:
		return fmt.Sprint(t.C)
	case OpVar:
		return ts.Vars[t.C].Name
	}
	if depth == 0 {
		return "..."
	}
	name := opSMT[t.Op]
	switch t.Op {
	case OpZExt:
		name = "zext"
	case OpSExt:
		name = "sext"
	case OpTrunc:
		name = "trunc"
	}
	s := "(" + name
	for i := uint8(0); i < t.NArg; i++ {
		s += " " + ts.Show(t.Args[i], depth-1)
	}
	return s + ")"
}
