package main

func cmdCheck(args []string) int  { return 2 }
func cmdReplay(args []string) int { return 2 }
