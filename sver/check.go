package main

// `sver check <property> [--tier quick|thorough]`: runs the property's jobs
// in parallel, replays counterexamples and witnesses natively, writes the
// evidence file and prints VIOLATION / KNOWN-FINDING lines.

import (
	"crypto/sha1"
	"encoding/json"
	"flag"
	"fmt"
	"go/token"
	"go/types"
	"os"
	"path/filepath"
	"runtime"
	"sort"
	"strconv"
	"strings"
	"sync"
	"time"

	"golang.org/x/tools/go/ssa"
)

type KnownFinding struct {
	ID       string `json:"id"`
	Property string `json:"property"`
	Status   string `json:"status"` // known | fixed
	Commit   string `json:"commit,omitempty"`
	What     string `json:"what"`
}

type KnownFile struct {
	Findings []KnownFinding `json:"findings"`
}

func loadKnown() KnownFile {
	var kf KnownFile
	b, err := os.ReadFile(filepath.Join(verifDir(), "known_findings.json"))
	if err == nil {
		json.Unmarshal(b, &kf)
	}
	return kf
}

type CheckDef struct {
	Property string
	Quick    []JobSpec
	Thorough []JobSpec
	Encoded  []string // anchor functions expected to be executed
	Assume   []string
	Bounds   string
	Outside  string
}

func cmdCheck(args []string) int {
	fs := flag.NewFlagSet("check", flag.ExitOnError)
	tier := fs.String("tier", "", "quick|thorough")
	workers := fs.Int("j", 0, "parallel jobs")
	only := fs.String("only", "", "only jobs whose harness contains this substring")
	if len(args) < 1 {
		fmt.Fprintln(os.Stderr, "usage: sver check <property> [--tier quick|thorough]")
		return 2
	}
	prop := args[0]
	fs.Parse(args[1:])
	if *tier == "" {
		*tier = os.Getenv("VERIF_TIER")
	}
	if *tier == "" {
		*tier = "quick"
	}
	seed := 0
	if s := os.Getenv("VERIF_SEED"); s != "" {
		seed, _ = strconv.Atoi(s)
	}
	def, ok := checkDefs()[prop]
	if !ok {
		fmt.Fprintf(os.Stderr, "no check for property %s\n", prop)
		return 2
	}
	jobs := def.Quick
	if *tier == "thorough" {
		jobs = append([]JobSpec(nil), def.Thorough...)
		for i := range jobs {
			jobs[i].SecondSolver = "z3" // z3 4.8.12 re-decides every final obligation
		}
	}
	if *only != "" {
		var f []JobSpec
		for _, j := range jobs {
			if strings.Contains(j.String(), *only) {
				f = append(f, j)
			}
		}
		jobs = f
	}
	// the seed only permutes the job order; nothing is sampled
	if seed != 0 && len(jobs) > 1 {
		r := uint64(seed)*6364136223846793005 + 1442695040888963407
		for i := len(jobs) - 1; i > 0; i-- {
			r = r*6364136223846793005 + 1442695040888963407
			k := int((r >> 33) % uint64(i+1))
			jobs[i], jobs[k] = jobs[k], jobs[i]
		}
	}
	t0 := time.Now()
	p, err := LoadProgram(repoDir(), filepath.Join(verifDir(), "harness"), "verif")
	if err != nil {
		fmt.Fprintln(os.Stderr, "LOAD-ERROR:", err)
		return 2
	}
	known := loadKnown()
	kfAccept := map[string]bool{}
	kfWhat := map[string]string{}
	for _, k := range known.Findings {
		if k.Status == "known" {
			kfAccept[k.ID] = true
		}
		kfWhat[k.ID] = k.What
	}
	nw := *workers
	if nw <= 0 {
		nw = runtime.NumCPU()
	}
	if nw > len(jobs) {
		nw = len(jobs)
	}
	// longest jobs first (heuristic: larger args)
	results := make([]*JobResult, len(jobs))
	var wg sync.WaitGroup
	ch := make(chan int)
	for w := 0; w < nw; w++ {
		wg.Add(1)
		go func() {
			defer wg.Done()
			for i := range ch {
				results[i] = RunJob(p, jobs[i], kfAccept)
				r := results[i]
				fmt.Fprintf(os.Stderr, "job %-40s %-12s exec=%.1fs states=%d obligations=%d viol=%d known=%d %s\n", jobs[i].String(), r.Status, r.ExecS, r.Stats.States, r.Obligations, len(r.Violations), len(r.Known), r.Error)
			}
		}()
	}
	for i := range jobs {
		ch <- i
	}
	close(ch)
	wg.Wait()

	// native replay of violations, known hits and witnesses
	type ref struct {
		job  int
		kind string // viol | known | wit
		idx  int
	}
	var ins []ReplayIn
	var refs []ref
	for ji, r := range results {
		for vi, v := range r.Violations {
			ins = append(ins, ReplayIn{Harness: r.Spec.Harness, Args: r.Spec.Args, Vector: v.Vector})
			refs = append(refs, ref{ji, "viol", vi})
		}
		for vi, v := range r.Known {
			ins = append(ins, ReplayIn{Harness: r.Spec.Harness, Args: r.Spec.Args, Vector: v.Vector})
			refs = append(refs, ref{ji, "known", vi})
		}
		for wi, w := range r.Witnesses {
			ins = append(ins, ReplayIn{Harness: r.Spec.Harness, Args: r.Spec.Args, Vector: w.Vector})
			refs = append(refs, ref{ji, "wit", wi})
		}
	}
	outs, rerr := NativeReplay(p, ins)
	exit := 0
	var lines []string
	mismatch := 0
	validated := 0
	confirmed := 0
	knownHit := map[string]bool{}
	if rerr != nil {
		fmt.Fprintln(os.Stderr, "REPLAY-ERROR:", rerr)
		exit = 2
	}
	os.MkdirAll(filepath.Join(verifDir(), "replays"), 0o755)
	for i, rf := range refs {
		if i >= len(outs) {
			break
		}
		o := outs[i]
		r := results[rf.job]
		switch rf.kind {
		case "wit":
			w := r.Witnesses[rf.idx]
			if o.Outcome == "ok" && logsEqual(w.Pred, o.Log) {
				validated++
			} else if o.Outcome == "assert" || o.Outcome == "panic" || o.Outcome == "timeout" {
				// a witness of reachability may itself be a violating input; handled through the violation list
				if logsEqual(w.Pred, o.Log) {
					validated++
				} else if o.Outcome != "panic" && o.Outcome != "timeout" {
					mismatch++
					fmt.Fprintf(os.Stderr, "ENCODER-MISMATCH witness %s %s: predicted %v native %v (%s)\n", r.Spec.String(), w.What, w.Pred, o.Log, o.Outcome)
				}
			} else {
				mismatch++
				fmt.Fprintf(os.Stderr, "ENCODER-MISMATCH witness %s %s: predicted %v native %v (%s)\n", r.Spec.String(), w.What, w.Pred, o.Log, o.Outcome)
			}
		case "viol", "known":
			var v Violation
			if rf.kind == "viol" {
				v = r.Violations[rf.idx]
			} else {
				v = r.Known[rf.idx]
			}
			repro := false
			switch v.Kind {
			case "assert":
				want := v.ID
				if rf.kind == "known" {
					want = v.ID + "@" + v.KF
				}
				for _, f := range o.Failed {
					if f == want {
						repro = true
					}
				}
			case "panic":
				repro = o.Outcome == "panic"
			case "unwind":
				repro = o.Outcome == "timeout"
			}
			rec := map[string]interface{}{"property": prop, "harness": r.Spec.Harness, "args": r.Spec.Args, "vector": v.Vector,
				"assertion": v.ID, "kind": v.Kind, "where": v.Where, "input": v.Input, "native_outcome": o.Outcome, "native_failed": o.Failed, "native_panic": o.Panic, "known_finding": v.KF}
			b, _ := json.MarshalIndent(rec, "", " ")
			h := sha1.Sum(b)
			path := filepath.Join(verifDir(), "replays", fmt.Sprintf("%s-%x.json", prop, h[:6]))
			if !repro {
				mismatch++
				fmt.Fprintf(os.Stderr, "ENCODER-MISMATCH: model for %s %s (%s) does not reproduce natively: outcome=%s failed=%v panic=%q input=%s\n", r.Spec.String(), v.ID, v.Kind, o.Outcome, o.Failed, o.Panic, v.Input)
				continue
			}
			if rf.kind == "known" {
				if !knownHit[v.KF] {
					knownHit[v.KF] = true
					lines = append(lines, fmt.Sprintf("KNOWN-FINDING: property=%s %s %s (e.g. %s input=%s)", prop, v.KF, kfWhat[v.KF], r.Spec.String(), v.Input))
				}
				continue
			}
			os.WriteFile(path, b, 0o644)
			confirmed++
			lines = append(lines, fmt.Sprintf("VIOLATION property=%s replay=%s", prop, path))
			fmt.Fprintf(os.Stderr, "  violation %s assertion=%s kind=%s at %s input=%s native=%s %v %s\n", r.Spec.String(), v.ID, v.Kind, v.Where, v.Input, o.Outcome, o.Failed, firstLine(o.Panic))
			exit = 1
		}
	}
	inconclusive := 0
	for _, r := range results {
		if r.Status == "error" || r.Status == "inconclusive" {
			inconclusive++
			fmt.Fprintf(os.Stderr, "INCONCLUSIVE job %s: %s %s %v obligations=%v\n", r.Spec.String(), r.Status, r.Error, r.SolverErrors, r.InconclusiveIDs)
		}
		for k, v := range r.Reach {
			if v != "sat" {
				inconclusive++
				fmt.Fprintf(os.Stderr, "VACUOUS job %s: reach point %s is %s\n", r.Spec.String(), k, v)
			}
		}
	}
	// vacuity across jobs: every vReach site of a harness must be reached by
	// at least one of its jobs in this check
	if *only == "" {
		static := map[string]map[string]bool{}
		reached := map[string]map[string]bool{}
		for _, r := range results {
			h := r.Spec.Harness
			if static[h] == nil {
				static[h], reached[h] = map[string]bool{}, map[string]bool{}
			}
			for _, id := range r.StaticReach {
				static[h][id] = true
			}
			for id, v := range r.Reach {
				if v == "sat" {
					reached[h][id] = true
				}
			}
		}
		for h, ids := range static {
			for id := range ids {
				if !reached[h][id] {
					inconclusive++
					fmt.Fprintf(os.Stderr, "VACUOUS harness %s: reach point %q is not reached by any job of this check\n", h, id)
				}
			}
		}
	}
	if mismatch > 0 && exit != 1 {
		exit = 3
	}
	if inconclusive > 0 && exit == 0 {
		exit = 2
	}
	for _, l := range lines {
		fmt.Println(l)
	}
	var uncovered []string
	if prop == "C04" && *only == "" {
		uncovered = uncoveredExports(p, results)
		for _, u := range uncovered {
			fmt.Fprintf(os.Stderr, "UNCOVERED-EXPORT %s: exported function not driven by any C04 job\n", u)
		}
		if len(uncovered) > 0 && exit == 0 {
			exit = 2
		}
		// isolation: any store to a package-level variable outside init
		for _, r := range results {
			for _, g := range r.GlobalStores {
				fmt.Fprintf(os.Stderr, "FOOTPRINT job %s: store to package-level variable %s\n", r.Spec.String(), g)
			}
		}
	}
	extraEvidence = map[string]interface{}{"exported_functions_not_entered": uncovered}
	writeEvidence(prop, *tier, seed, def, results, validated, confirmed, mismatch, inconclusive, knownHit, time.Since(t0).Seconds())
	fmt.Fprintf(os.Stderr, "check %s tier=%s: jobs=%d violations=%d known=%d validated_traces=%d mismatches=%d inconclusive=%d wall=%.1fs exit=%d\n",
		prop, *tier, len(jobs), confirmed, len(knownHit), validated, mismatch, inconclusive, time.Since(t0).Seconds(), exit)
	return exit
}

var extraEvidence map[string]interface{}

// uncoveredExports lists exported functions / methods of sipsp that no job entered.
func uncoveredExports(p *Program, results []*JobResult) []string {
	entered := map[string]bool{}
	for _, r := range results {
		for f := range r.Funcs {
			entered[f] = true
		}
	}
	var out []string
	check := func(fn *ssa.Function) {
		if fn == nil || fn.Blocks == nil || fn.Synthetic != "" {
			return
		}
		if !token.IsExported(fn.Name()) || strings.HasPrefix(fn.Name(), "H_") {
			return
		}
		switch fn.Name() {
		case "DBG", "DBGon", "WARN", "ERR", "BUG":
			return // logging: stubbed (2.5), not part of any claim
		}
		if pos := p.Prog.Fset.Position(fn.Pos()); strings.Contains(pos.Filename, "zz_verif_") || strings.HasSuffix(pos.Filename, "_test.go") {
			return
		}
		if !entered[fn.String()] {
			out = append(out, fn.String())
		}
	}
	for _, m := range p.Pkg.Members {
		switch x := m.(type) {
		case *ssa.Function:
			check(x)
		case *ssa.Type:
			if !token.IsExported(x.Name()) {
				continue
			}
			for _, T := range []types.Type{x.Type(), types.NewPointer(x.Type())} {
				ms := p.Prog.MethodSets.MethodSet(T)
				for i := 0; i < ms.Len(); i++ {
					check(p.Prog.MethodValue(ms.At(i)))
				}
			}
		}
	}
	sort.Strings(out)
	// de-duplicate (value / pointer receiver wrappers)
	var ded []string
	for i, o := range out {
		if i == 0 || out[i-1] != o {
			ded = append(ded, o)
		}
	}
	return ded
}

func firstLine(s string) string {
	if i := strings.Index(s, "\n"); i >= 0 {
		return s[:i]
	}
	return s
}

func writeEvidence(prop, tier string, seed int, def CheckDef, results []*JobResult, validated, confirmed, mismatch, inconclusive int, knownHit map[string]bool, wall float64) {
	var states, transitions, obligations, discharged, incon int64
	var solverMs, solverMax float64
	var solverQ, secondQ, disagree int
	var assertStates, assertSym int64
	funcs := map[string]int{}
	var samples []interface{}
	var jobsum []interface{}
	gstores := map[string]bool{}
	for _, r := range results {
		states += r.Stats.States
		transitions += r.Stats.Edges
		obligations += int64(r.Obligations)
		discharged += int64(r.Discharged)
		incon += int64(r.Inconclusive)
		solverMs += r.SolverMs
		solverQ += r.SolverQ
		secondQ += r.SecondSolverQ
		disagree += r.SolverDisagreements
		if r.SolverMaxMs > solverMax {
			solverMax = r.SolverMaxMs
		}
		for f, n := range r.Funcs {
			funcs[f] += n
		}
		for _, g := range r.GlobalStores {
			gstores[g] = true
		}
		as := map[string]interface{}{}
		for k, v := range r.Asserts {
			as[k] = map[string]int{"states": v.States, "symbolic_condition": v.Symbolic}
			assertStates += int64(v.States)
			assertSym += int64(v.Symbolic)
		}
		jobsum = append(jobsum, map[string]interface{}{"job": r.Spec.String(), "status": r.Status, "merged_states": r.Stats.States, "forks": r.Stats.Forks,
			"merges": r.Stats.MergedItems, "paths_pruned": r.Stats.Pruned, "assertions": as, "obligations": r.Obligations, "solver_queries": r.SolverQ,
			"solver_ms": int(r.SolverMs), "exec_s": r.ExecS, "symbolic_vars": r.NVars, "terms": r.Terms})
		if len(samples) < 12 {
			for _, w := range r.Witnesses {
				if len(samples) >= 12 {
					break
				}
				samples = append(samples, map[string]interface{}{"job": r.Spec.String(), "witness_of": w.What, "input": w.Input, "vector": w.Vector, "observed": w.Pred})
			}
		}
	}
	if len(samples) == 0 {
		samples = append(samples, map[string]interface{}{"note": "no witness produced", "jobs": len(results)})
	}
	fnames := make([]string, 0, len(funcs))
	for f := range funcs {
		fnames = append(fnames, f)
	}
	sort.Strings(fnames)
	var kh []string
	for k := range knownHit {
		kh = append(kh, k)
	}
	sort.Strings(kh)
	var gs []string
	for g := range gstores {
		gs = append(gs, g)
	}
	sort.Strings(gs)
	ev := map[string]interface{}{
		"property_id": prop,
		"tier":        tier,
		"seed":        seed,
		"level":       "model_checking",
		"wall_s":      wall,
		"violations":  confirmed,
		"coverage": map[string]interface{}{
			"states":                            max(states, 1),
			"transitions":                       max(transitions, 1),
			"traces_validated_against_impl":     validated,
			"samples":                           samples,
			"obligations":                       obligations,
			"discharged":                        discharged,
			"inconclusive":                      incon + int64(inconclusive),
			"functions_encoded":                 fnames,
			"bounds":                            def.Bounds,
			"outside_claim":                     def.Outside,
			"solver":                            map[string]interface{}{"name": "z3 5.1.0 (z3-new -in, push/pop)", "queries": solverQ, "total_ms": int(solverMs), "max_ms": int(solverMax)},
			"jobs":                              jobsum,
			"encoder_mismatches":                mismatch,
			"assertion_evaluations":             map[string]interface{}{"merged_states_reaching_an_assertion": assertStates, "with_symbolic_condition_sent_to_solver": assertSym, "note": "a state whose assertion condition is concretely true needs no solver query: the state stands for every input of its exact path condition; concretely false or symbolic conditions become solver obligations"},
			"second_solver":                     map[string]interface{}{"name": "z3 4.8.12 (thorough tier: every final obligation re-decided)", "queries": secondQ, "disagreements": disagree},
			"known_findings_hit":                kh,
			"package_level_stores_outside_init": gs,
			"rule":                              "states = merged symbolic states scheduled by the SSA executor (each stands for every input satisfying its path condition); transitions = CFG edges taken; every assertion site and implicit run-time check is an obligation discharged by the SMT solver (unsat = holds for all inputs in the bound) or decided on the exact per-byte value sets of the path condition",
		},
		"assumptions": def.Assume,
	}
	for k, v := range extraEvidence {
		if v != nil {
			ev["coverage"].(map[string]interface{})[k] = v
		}
	}
	b, _ := json.MarshalIndent(ev, "", " ")
	os.MkdirAll(filepath.Join(verifDir(), "evidence"), 0o755)
	os.WriteFile(filepath.Join(verifDir(), "evidence", prop+".json"), b, 0o644)
}

func cmdReplay(args []string) int {
	if len(args) < 1 {
		fmt.Fprintln(os.Stderr, "usage: sver replay <path>")
		return 2
	}
	b, err := os.ReadFile(args[0])
	if err != nil {
		fmt.Fprintln(os.Stderr, err)
		return 2
	}
	var rec struct {
		Property  string `json:"property"`
		Harness   string `json:"harness"`
		Args      []int  `json:"args"`
		Vector    Vector `json:"vector"`
		Assertion string `json:"assertion"`
		Kind      string `json:"kind"`
	}
	if err := json.Unmarshal(b, &rec); err != nil {
		fmt.Fprintln(os.Stderr, err)
		return 2
	}
	p, err := LoadProgram(repoDir(), filepath.Join(verifDir(), "harness"), "verif")
	if err != nil {
		fmt.Fprintln(os.Stderr, "LOAD-ERROR:", err)
		return 2
	}
	outs, err := NativeReplay(p, []ReplayIn{{Harness: rec.Harness, Args: rec.Args, Vector: rec.Vector}})
	if err != nil || len(outs) == 0 {
		fmt.Fprintln(os.Stderr, "REPLAY-ERROR:", err)
		return 2
	}
	o := outs[0]
	ob, _ := json.MarshalIndent(o, "", " ")
	fmt.Println(string(ob))
	if o.Outcome == "assert" || o.Outcome == "panic" || o.Outcome == "timeout" {
		fmt.Printf("VIOLATION property=%s replay=%s\n", rec.Property, args[0])
		return 1
	}
	return 0
}
