package main

// Values, flattened object layouts, copy-on-write heap with incremental
// hashing, and symbolic execution states.

import (
	"fmt"
	"go/types"
	"hash/fnv"
	"math/bits"
	"sync"
	"sync/atomic"
	"unsafe"

	"golang.org/x/tools/go/ssa"
	"golang.org/x/tools/go/types/typeutil"
)

// Value is one of: Int, *Term, Ptr, Slice, Str, Iface, Func, Agg.
type Value interface{}

type Int uint64 // concrete scalar, zero-extended from its type's width

type Ptr struct{ Obj, Off int32 } // Obj < 0: nil

type Slice struct {
	Obj, Off int32 // backing object and flat cell offset of element 0
	Len, Cap int32
	ESz      int32 // flat cells per element
}

type Str string

// SymStr is a string whose bytes live in a (possibly symbolic) byte object.
type SymStr struct{ S Slice }

type Iface struct {
	T types.Type // nil: nil interface
	V Value
}

type Func struct {
	Fn   *ssa.Function // nil: nil func
	Free []Value
}

type Agg []Value // struct / array / tuple as flat scalar cells

var nilPtr = Ptr{Obj: -1}
var nilSlice = Slice{Obj: -1}

// ---------- layouts ----------

type Layout struct {
	T     types.Type
	Size  int     // flat cells
	Zero  []Value // zero template (len Size)
	Ptrs  []int32 // cell indexes that may reference objects
	FOffs []int   // struct: flat offset of each field
	ESize int     // array: flat size of element
}

type Layouts struct {
	m  typeutil.Map
	mu sync.Mutex
}

func (ls *Layouts) Of(t types.Type) *Layout {
	ls.mu.Lock()
	defer ls.mu.Unlock()
	return ls.of(t)
}

func (ls *Layouts) of(t types.Type) *Layout {
	if v := ls.m.At(t); v != nil {
		return v.(*Layout)
	}
	l := &Layout{T: t}
	switch u := t.Underlying().(type) {
	case *types.Struct:
		l.FOffs = make([]int, u.NumFields())
		for i := 0; i < u.NumFields(); i++ {
			fl := ls.of(u.Field(i).Type())
			l.FOffs[i] = l.Size
			for _, p := range fl.Ptrs {
				l.Ptrs = append(l.Ptrs, p+int32(l.Size))
			}
			l.Zero = append(l.Zero, fl.Zero...)
			l.Size += fl.Size
		}
	case *types.Array:
		el := ls.of(u.Elem())
		l.ESize = el.Size
		n := int(u.Len())
		l.Zero = make([]Value, 0, n*el.Size)
		for i := 0; i < n; i++ {
			for _, p := range el.Ptrs {
				l.Ptrs = append(l.Ptrs, p+int32(l.Size))
			}
			l.Zero = append(l.Zero, el.Zero...)
			l.Size += el.Size
		}
	case *types.Tuple:
		for i := 0; i < u.Len(); i++ {
			fl := ls.of(u.At(i).Type())
			l.FOffs = append(l.FOffs, l.Size)
			l.Zero = append(l.Zero, fl.Zero...)
			l.Size += fl.Size
		}
	default:
		l.Size = 1
		l.Zero = []Value{zeroScalar(t)}
		switch t.Underlying().(type) {
		case *types.Pointer, *types.Slice, *types.Interface, *types.Signature:
			l.Ptrs = []int32{0}
		case *types.Basic:
			if t.Underlying().(*types.Basic).Kind() == types.String {
				l.Ptrs = []int32{0} // SymStr may reference an object
			}
		}
	}
	ls.m.Set(t, l)
	return l
}

func zeroScalar(t types.Type) Value {
	switch u := t.Underlying().(type) {
	case *types.Basic:
		if u.Info()&types.IsString != 0 {
			return Str("")
		}
		return Int(0)
	case *types.Pointer:
		return nilPtr
	case *types.Slice:
		return nilSlice
	case *types.Interface:
		return Iface{}
	case *types.Signature:
		return Func{}
	case *types.Map, *types.Chan:
		return nilPtr
	}
	panic(fmt.Sprintf("zeroScalar: unsupported type %s", t))
}

func isAggregate(t types.Type) bool {
	switch t.Underlying().(type) {
	case *types.Struct, *types.Array, *types.Tuple:
		return true
	}
	return false
}

// intInfo returns bit width and signedness of an integer/bool type.
func intInfo(t types.Type) (uint8, bool) {
	b, ok := t.Underlying().(*types.Basic)
	if !ok {
		panic(fmt.Sprintf("intInfo: not basic: %s", t))
	}
	switch b.Kind() {
	case types.Bool, types.UntypedBool:
		return 1, false
	case types.Int8:
		return 8, true
	case types.Uint8:
		return 8, false
	case types.Int16:
		return 16, true
	case types.Uint16:
		return 16, false
	case types.Int32, types.UntypedRune:
		return 32, true
	case types.Uint32:
		return 32, false
	case types.Int, types.Int64, types.UntypedInt:
		return 64, true
	case types.Uint, types.Uint64, types.Uintptr:
		return 64, false
	}
	panic(fmt.Sprintf("intInfo: unsupported basic kind %s", t))
}

func isBool(t types.Type) bool {
	b, ok := t.Underlying().(*types.Basic)
	return ok && b.Info()&types.IsBoolean != 0
}

// ---------- hashing ----------

func mix(a, b uint64) uint64 {
	x := a*0x9E3779B97F4A7C15 ^ bits.RotateLeft64(b, 31)*0xC2B2AE3D27D4EB4F
	x ^= x >> 29
	x *= 0xBF58476D1CE4E5B9
	x ^= x >> 32
	return x
}

func strHash(s string) uint64 {
	h := fnv.New64a()
	h.Write([]byte(s))
	return h.Sum64()
}

var typeHashCache typeutil.Map
var typeHashMu sync.Mutex

func typeHash(t types.Type) uint64 {
	if t == nil {
		return 7
	}
	typeHashMu.Lock()
	defer typeHashMu.Unlock()
	if v := typeHashCache.At(t); v != nil {
		return v.(uint64)
	}
	h := strHash(t.String())
	typeHashCache.Set(t, h)
	return h
}

const symHash = 0x5bd1e9955bd1e995

func valHash(v Value) uint64 {
	switch x := v.(type) {
	case Int:
		return mix(1, uint64(x))
	case *Term:
		return mix(symHash, uint64(x.ID))
	case Ptr:
		return mix(2, uint64(uint32(x.Obj))<<32|uint64(uint32(x.Off)))
	case Slice:
		return mix(mix(3, uint64(uint32(x.Obj))<<32|uint64(uint32(x.Off))), uint64(uint32(x.Len))<<32|uint64(uint32(x.Cap)))
	case Str:
		return mix(4, strHash(string(x)))
	case SymStr:
		return mix(8, valHash(x.S))
	case Iface:
		if x.T == nil {
			return 5
		}
		return mix(typeHash(x.T), valHash(x.V))
	case Func:
		if x.Fn == nil {
			return 6
		}
		h := mix(6, uint64(uintptr(unsafe.Pointer(x.Fn))))
		for i, f := range x.Free {
			h ^= mix(uint64(i)+21, valHash(f))
		}
		return h
	case Agg:
		h := uint64(9)
		for i, c := range x {
			h ^= mix(uint64(i)+11, valHash(c))
		}
		return h
	case SymPtr:
		return mix(12, uint64(uint32(x.Obj))<<32|uint64(uint32(x.Off)))
	case nil:
		return 10
	}
	panic(fmt.Sprintf("valHash: %T", v))
}

// valEq: structural equality for merging; two symbolic values count as equal.
func valEq(a, b Value) bool {
	switch x := a.(type) {
	case Int:
		y, ok := b.(Int)
		return ok && x == y
	case *Term:
		// symbolic cells must hold the very same term: states are merged only
		// when their symbolic contents are identical functions of the input
		y, ok := b.(*Term)
		return ok && x == y
	case Ptr:
		y, ok := b.(Ptr)
		return ok && x == y
	case Slice:
		y, ok := b.(Slice)
		return ok && x == y
	case Str:
		y, ok := b.(Str)
		return ok && x == y
	case SymStr:
		y, ok := b.(SymStr)
		return ok && x == y
	case Iface:
		y, ok := b.(Iface)
		if !ok {
			return false
		}
		if x.T == nil || y.T == nil {
			return x.T == nil && y.T == nil
		}
		return types.Identical(x.T, y.T) && valEq(x.V, y.V)
	case Func:
		y, ok := b.(Func)
		if !ok || x.Fn != y.Fn || len(x.Free) != len(y.Free) {
			return false
		}
		for i := range x.Free {
			if !valEq(x.Free[i], y.Free[i]) {
				return false
			}
		}
		return true
	case Agg:
		y, ok := b.(Agg)
		if !ok || len(x) != len(y) {
			return false
		}
		for i := range x {
			if !valEq(x[i], y[i]) {
				return false
			}
		}
		return true
	case SymPtr:
		y, ok := b.(SymPtr)
		return ok && x == y
	case nil:
		return b == nil
	}
	panic(fmt.Sprintf("valEq: %T", a))
}

// ---------- heap ----------

type Object struct {
	cells []Value
	hash  uint64
	owner uint64
	ptrs  []int32 // cells that may hold references (nil: none)
	tag   string  // for diagnostics
	stack bool
}

type Heap struct {
	id   uint64
	objs []*Object
	hash uint64
}

var heapIDCtr uint64

func newHeapID() uint64 { return atomic.AddUint64(&heapIDCtr, 1) }

func NewHeap() *Heap { return &Heap{id: newHeapID()} }

func (h *Heap) Fork() *Heap {
	n := &Heap{id: newHeapID(), hash: h.hash, objs: make([]*Object, len(h.objs))}
	copy(n.objs, h.objs)
	h.id = newHeapID() // neither side owns the shared objects any more
	return n
}

func objHash(cells []Value) uint64 {
	var h uint64
	for i, c := range cells {
		h ^= mix(uint64(i)+1, valHash(c))
	}
	return h
}

func (h *Heap) Alloc(cells []Value, ptrs []int32, tag string, stack bool) int32 {
	o := &Object{cells: cells, owner: h.id, ptrs: ptrs, tag: tag, stack: stack}
	o.hash = objHash(cells)
	id := -1
	for i, x := range h.objs {
		if x == nil {
			id = i
			break
		}
	}
	if id < 0 {
		id = len(h.objs)
		h.objs = append(h.objs, nil)
	}
	h.objs[id] = o
	h.hash ^= mix(uint64(id)+1, o.hash)
	return int32(id)
}

func (h *Heap) Free(id int32) {
	o := h.objs[id]
	if o == nil {
		return
	}
	h.hash ^= mix(uint64(id)+1, o.hash)
	h.objs[id] = nil
	// trim
	for len(h.objs) > 0 && h.objs[len(h.objs)-1] == nil {
		h.objs = h.objs[:len(h.objs)-1]
	}
}

func (h *Heap) Load(p Ptr) Value {
	return h.objs[p.Obj].cells[p.Off]
}

func (h *Heap) Store(p Ptr, v Value) {
	o := h.objs[p.Obj]
	old := o.cells[p.Off]
	if o.owner != h.id {
		n := &Object{cells: make([]Value, len(o.cells)), hash: o.hash, owner: h.id, ptrs: o.ptrs, tag: o.tag, stack: o.stack}
		copy(n.cells, o.cells)
		h.objs[p.Obj] = n
		o = n
	}
	oh, nh := valHash(old), valHash(v)
	if oh != nh {
		h.hash ^= mix(uint64(p.Obj)+1, o.hash)
		o.hash ^= mix(uint64(p.Off)+1, oh) ^ mix(uint64(p.Off)+1, nh)
		h.hash ^= mix(uint64(p.Obj)+1, o.hash)
	}
	o.cells[p.Off] = v
}

// ---------- state ----------

const maxVars = 64

// State of one symbolic execution path set. The path condition is the
// disjunction of cubes (see guard.go).
type State struct {
	cubes    []*Cube // immutable, shared
	gcache   *Term
	heap     *Heap
	read     uint64 // byte variables loaded so far
	hw       int
	nBytes   int // per-path counters for deterministic variable naming
	nBool    int
	nU8      int
	nU16     int
	nU32     int
	nChoice  int
	nObs     int
	allocLog []int32
	steps    int
}

func (s *State) Fork() *State {
	n := *s
	n.heap = s.heap.Fork()
	n.allocLog = append([]int32(nil), s.allocLog...)
	return &n
}

func (s *State) counters() [8]int {
	return [8]int{s.nBytes, s.nBool, s.nU8, s.nU16, s.nU32, s.nChoice, s.nObs, len(s.allocLog)}
}

// GuardSnap is an immutable snapshot of a state's path condition.
type GuardSnap struct {
	cubes []*Cube
}

func (s *State) snap() GuardSnap { return GuardSnap{cubes: s.cubes} }
