package main

// Cheap unsigned interval evaluation of terms under a cube's value sets,
// used to decide arithmetic branch conditions without the solver
// (notably the overflow test "old > old*10+d" when no wrap-around is possible).

type ival struct {
	lo, hi uint64
	ok     bool
}

func (g *Guards) maskRange(id uint16) (uint64, uint64) {
	m := g.masks[id]
	lo := m.First()
	hi := lo
	for x := 255; x >= 0; x-- {
		if m.Has(x) {
			hi = x
			break
		}
	}
	return uint64(lo), uint64(hi)
}

func (g *Guards) ivalOf(t *Term, c *Cube, memo map[*Term]ival) ival {
	if t.W == 0 {
		return ival{}
	}
	if t.Op == OpConst {
		return ival{t.C, t.C, true}
	}
	if r, ok := memo[t]; ok {
		return r
	}
	full := ival{0, wmask(t.W), true}
	res := full
	switch t.Op {
	case OpVar:
		if g.e.ts.Vars[t.C].W == 8 {
			id := c.mid(int(t.C))
			if id != 0 {
				lo, hi := g.maskRange(id)
				res = ival{lo, hi, true}
			}
		}
	case OpZExt:
		res = g.ivalOf(t.Args[0], c, memo)
	case OpTrunc:
		a := g.ivalOf(t.Args[0], c, memo)
		if a.ok && a.hi <= wmask(t.W) {
			res = a
		}
	case OpAdd:
		a, b := g.ivalOf(t.Args[0], c, memo), g.ivalOf(t.Args[1], c, memo)
		if a.ok && b.ok {
			if hi := a.hi + b.hi; hi >= a.hi && hi <= wmask(t.W) {
				res = ival{a.lo + b.lo, hi, true}
			} else if t.Args[1].IsConst() && a.lo+b.lo < a.lo && t.W == 64 {
				// adding a "negative" constant where every value wraps the same way
				res = ival{a.lo + b.lo, a.hi + b.hi, a.lo+b.lo <= a.hi+b.hi}
				if !res.ok {
					res = full
				}
			} else if t.Args[1].IsConst() && t.W < 64 {
				// x + k (mod 2^w) with k = -m: if lo >= m no borrow happens
				m := (wmask(t.W) + 1 - b.lo) & wmask(t.W)
				if a.lo >= m {
					res = ival{a.lo - m, a.hi - m, true}
				}
			}
		}
	case OpSub:
		a, b := g.ivalOf(t.Args[0], c, memo), g.ivalOf(t.Args[1], c, memo)
		if a.ok && b.ok && a.lo >= b.hi {
			res = ival{a.lo - b.hi, a.hi - b.lo, true}
		}
	case OpMul:
		a, b := g.ivalOf(t.Args[0], c, memo), g.ivalOf(t.Args[1], c, memo)
		if a.ok && b.ok {
			if a.hi == 0 || b.hi == 0 {
				res = ival{0, 0, true}
			} else if hi := a.hi * b.hi; hi/b.hi == a.hi && hi <= wmask(t.W) {
				res = ival{a.lo * b.lo, hi, true}
			}
		}
	case OpAnd:
		a, b := g.ivalOf(t.Args[0], c, memo), g.ivalOf(t.Args[1], c, memo)
		if a.ok && b.ok {
			res = ival{0, min(a.hi, b.hi), true}
		}
	case OpIte:
		a, b := g.ivalOf(t.Args[1], c, memo), g.ivalOf(t.Args[2], c, memo)
		if a.ok && b.ok {
			res = ival{min(a.lo, b.lo), max(a.hi, b.hi), true}
		}
	case OpLShr:
		a := g.ivalOf(t.Args[0], c, memo)
		if a.ok && t.Args[1].IsConst() && t.Args[1].C < 64 {
			res = ival{a.lo >> t.Args[1].C, a.hi >> t.Args[1].C, true}
		}
	}
	memo[t] = res
	return res
}

// noWrapGE reports whether a = b*k + d (k >= 1 constant) provably computes
// without wrap-around, which implies a >= b.
func (g *Guards) noWrapGE(a, b *Term, c *Cube, memo map[*Term]ival) bool {
	if a.Op != OpAdd {
		return false
	}
	for i := 0; i < 2; i++ {
		m, d := a.Args[i], a.Args[1-i]
		if m.Op != OpMul {
			continue
		}
		for j := 0; j < 2; j++ {
			x, k := m.Args[j], m.Args[1-j]
			if x != b || !k.IsConst() || k.C < 1 {
				continue
			}
			xi, di := g.ivalOf(x, c, memo), g.ivalOf(d, c, memo)
			if !xi.ok || !di.ok {
				continue
			}
			hi := xi.hi * k.C
			if xi.hi != 0 && hi/xi.hi != k.C {
				continue
			}
			if hi+di.hi < hi || hi+di.hi > wmask(a.W) {
				continue
			}
			return true
		}
	}
	return false
}

// quick decides cond under cube c: +1 always true, -1 always false, 0 unknown.
func (g *Guards) quick(cond *Term, c *Cube) int {
	neg := false
	t := cond
	if t.Op == OpBNot {
		neg = true
		t = t.Args[0]
	}
	r := 0
	memo := map[*Term]ival{}
	switch t.Op {
	case OpULt, OpULe, OpEq:
		a, b := t.Args[0], t.Args[1]
		if a.W == 0 {
			return 0
		}
		if t.Op == OpEq && a.Op == OpVar && b.Op == OpVar && a.W == 8 {
			ma, mb := g.masks[c.mid(int(a.C))], g.masks[c.mid(int(b.C))]
			if ma.And(mb).Empty() {
				r = -1
			} else if ma.Count() == 1 && ma == mb {
				r = 1
			}
			if r != 0 {
				if neg {
					r = -r
				}
				return r
			}
		}
		ai, bi := g.ivalOf(a, c, memo), g.ivalOf(b, c, memo)
		if ai.ok && bi.ok {
			switch t.Op {
			case OpULt:
				if ai.hi < bi.lo {
					r = 1
				} else if ai.lo >= bi.hi {
					r = -1
				}
			case OpULe:
				if ai.hi <= bi.lo {
					r = 1
				} else if ai.lo > bi.hi {
					r = -1
				}
			case OpEq:
				if ai.hi < bi.lo || bi.hi < ai.lo {
					r = -1
				} else if ai.lo == ai.hi && bi.lo == bi.hi && ai.lo == bi.lo {
					r = 1
				}
			}
		}
		if r == 0 && t.Op == OpULt && g.noWrapGE(a, b, c, memo) {
			r = -1 // a >= b
		}
		if r == 0 && t.Op == OpULe && g.noWrapGE(b, a, c, memo) {
			r = 1 // b >= a
		}
	}
	if neg {
		r = -r
	}
	return r
}
