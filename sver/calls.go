package main

// Calls: static / dynamic / invoke, builtins, harness intrinsics (v*),
// stubs (logging) and models (bytes.Equal, bytes.IndexByte, strings.Builder).

import (
	"fmt"
	"go/types"
	"strings"

	"golang.org/x/tools/go/ssa"
)

func (e *Engine) finishCall(c *ctx, x *ssa.Call, idx int, results []Result) int {
	switch len(results) {
	case 0:
		return stepStop
	case 1:
		c.st = results[0].st
		e.set(c, x, results[0].ret)
		return stepNext
	}
	for _, r := range results {
		c2 := e.cloneCtx(c, r.st)
		e.set(c2, x, r.ret)
		e.runFrom(c2, idx+1)
		e.putRegs(c.fi, c2.regs)
	}
	return stepStop
}

func (e *Engine) doCall(c *ctx, x *ssa.Call, idx int) int {
	cc := &x.Call
	if cc.IsInvoke() {
		iv, ok := e.get(c, cc.Value).(Iface)
		if !ok {
			unsupported("invoke on %T", e.get(c, cc.Value))
		}
		if iv.T == nil {
			e.fail(c, "panic", "panic:nil-deref", nil, x, "invoke on nil interface")
			return stepStop
		}
		fn := e.P.LookupMethod(iv.T, cc.Method)
		if fn == nil {
			unsupported("method %s not found on %s", cc.Method.Name(), iv.T)
		}
		args := []Value{iv.V}
		for _, a := range cc.Args {
			args = append(args, e.get(c, a))
		}
		return e.callFn(c, x, idx, fn, args)
	}
	switch f := cc.Value.(type) {
	case *ssa.Builtin:
		return e.doBuiltin(c, x, f, idx)
	case *ssa.Function:
		args := make([]Value, len(cc.Args))
		for i, a := range cc.Args {
			args[i] = e.get(c, a)
		}
		return e.callFn(c, x, idx, f, args)
	default:
		fv, ok := e.get(c, cc.Value).(Func)
		if !ok || fv.Fn == nil {
			e.fail(c, "panic", "panic:nil-func", nil, x, "")
			return stepStop
		}
		args := make([]Value, 0, len(cc.Args)+len(fv.Free))
		for _, a := range cc.Args {
			args = append(args, e.get(c, a))
		}
		args = append(args, fv.Free...)
		return e.callFn(c, x, idx, fv.Fn, args)
	}
}

func (e *Engine) zeroOf(t types.Type) Value {
	if tt, ok := t.(*types.Tuple); ok && tt.Len() == 0 {
		return nil
	}
	if isAggregate(t) {
		return append(Agg(nil), e.P.Lay.Of(t).Zero...)
	}
	return zeroScalar(t)
}

func (e *Engine) callFn(c *ctx, x *ssa.Call, idx int, fn *ssa.Function, args []Value) int {
	name := fn.Name()
	pkg := fn.Pkg
	if pkg == nil && fn.Origin() != nil {
		pkg = fn.Origin().Pkg
	}
	if pkg == e.P.Pkg {
		if strings.HasPrefix(name, "v") && len(name) > 1 && name[1] >= 'A' && name[1] <= 'Z' && fn.Signature.Recv() == nil {
			if r, ok := e.intrinsic(c, x, idx, name, args); ok {
				return r
			}
		}
		switch name {
		case "DBG", "WARN", "ERR", "BUG":
			if fn.Signature.Recv() == nil {
				e.set(c, x, nil)
				return stepNext
			}
		case "DBGon":
			if fn.Signature.Recv() == nil {
				e.set(c, x, Int(0))
				return stepNext
			}
		}
	}
	if !e.ownPkg(pkg) {
		// external: models and stubs
		full := fn.String()
		switch full {
		case "bytes.Equal":
			return e.modelBytesEqual(c, x, args)
		case "bytes.IndexByte":
			return e.modelIndexByte(c, x, idx, args)
		case "(*strings.Builder).WriteByte":
			return e.modelBuilderWriteByte(c, x, args)
		case "(*strings.Builder).String":
			return e.modelBuilderString(c, x, args)
		}
		if name == "init" && fn.Signature.Recv() == nil {
			e.set(c, x, nil)
			return stepNext
		}
		if pkg != nil && pkg.Pkg.Path() == "github.com/intuitivelabs/slog" {
			res := fn.Signature.Results()
			switch res.Len() {
			case 0:
				e.set(c, x, nil)
			case 1:
				e.set(c, x, e.zeroOf(res.At(0).Type()))
			default:
				e.set(c, x, e.zeroOf(res))
			}
			return stepNext
		}
		unsupported("external call %s at %s", full, e.pos(x))
	}
	results := e.call(e.P.Info(fn), c.st, args)
	return e.finishCall(c, x, idx, results)
}

func (e *Engine) doBuiltin(c *ctx, x *ssa.Call, f *ssa.Builtin, idx int) int {
	args := x.Call.Args
	switch f.Name() {
	case "len", "cap":
		switch v := e.get(c, args[0]).(type) {
		case Slice:
			if f.Name() == "len" {
				e.set(c, x, Int(v.Len))
			} else {
				e.set(c, x, Int(v.Cap))
			}
		case Str:
			e.set(c, x, Int(len(v)))
		case SymStr:
			e.set(c, x, Int(v.S.Len))
		case Ptr:
			at := args[0].Type().Underlying().(*types.Pointer).Elem().Underlying().(*types.Array)
			e.set(c, x, Int(at.Len()))
		case Agg:
			at := args[0].Type().Underlying().(*types.Array)
			e.set(c, x, Int(at.Len()))
		default:
			unsupported("len of %T", v)
		}
		return stepNext
	case "ssa:wrapnilchk":
		p := e.get(c, args[0])
		if pp, ok := p.(Ptr); ok && pp.Obj < 0 {
			e.fail(c, "panic", "panic:nil-deref", nil, x, "wrapnilchk")
			return stepStop
		}
		e.set(c, x, p)
		return stepNext
	case "copy":
		dst := e.get(c, args[0]).(Slice)
		var srcCells []Value
		var sl int32
		switch s := e.get(c, args[1]).(type) {
		case Slice:
			sl = s.Len
			if s.Obj >= 0 {
				so := c.st.heap.objs[s.Obj]
				srcCells = append([]Value(nil), so.cells[s.Off:s.Off+s.Len*s.ESz]...)
			}
		case Str:
			sl = int32(len(s))
			for i := 0; i < len(s); i++ {
				srcCells = append(srcCells, Int(s[i]))
			}
		default:
			unsupported("copy from %T", s)
		}
		n := min(dst.Len, sl)
		for i := int32(0); i < n*dst.ESz; i++ {
			c.st.heap.Store(Ptr{Obj: dst.Obj, Off: dst.Off + i}, srcCells[i])
		}
		if n > 0 {
			e.noteGlobal(c, dst.Obj, true)
		}
		e.set(c, x, Int(n))
		return stepNext
	case "append":
		a := e.get(c, args[0]).(Slice)
		var add []Value
		var addN int32
		esz := a.ESz
		switch b := e.get(c, args[1]).(type) {
		case Slice:
			addN = b.Len
			if b.Obj >= 0 {
				esz = b.ESz
				bo := c.st.heap.objs[b.Obj]
				add = bo.cells[b.Off : b.Off+b.Len*b.ESz]
			}
		case Str:
			addN = int32(len(b))
			esz = 1
			for i := 0; i < len(b); i++ {
				add = append(add, Int(b[i]))
			}
		}
		if esz == 0 {
			et := x.Type().Underlying().(*types.Slice).Elem()
			esz = int32(e.P.Lay.Of(et).Size)
		}
		et := x.Type().Underlying().(*types.Slice).Elem()
		el := e.P.Lay.Of(et)
		var cells []Value
		if a.Obj >= 0 {
			ao := c.st.heap.objs[a.Obj]
			cells = append(cells, ao.cells[a.Off:a.Off+a.Len*esz]...)
		}
		cells = append(cells, add...)
		n := a.Len + addN
		var ptrs []int32
		if len(el.Ptrs) > 0 {
			for i := int32(0); i < n; i++ {
				for _, p := range el.Ptrs {
					ptrs = append(ptrs, p+i*esz)
				}
			}
		}
		id := c.st.heap.Alloc(cells, ptrs, "append", false)
		c.st.allocLog = append(c.st.allocLog, id)
		e.set(c, x, Slice{Obj: id, Len: n, Cap: n, ESz: esz})
		return stepNext
	case "min", "max":
		unsupported("builtin %s", f.Name())
	}
	unsupported("builtin %s at %s", f.Name(), e.pos(x))
	return stepStop
}

// ---------- models ----------

func (e *Engine) sliceCells(st *State, s Slice) []Value {
	if s.Obj < 0 || s.Len == 0 {
		return nil
	}
	return st.heap.objs[s.Obj].cells[s.Off : s.Off+s.Len]
}

func (e *Engine) markRead(st *State, cells []Value) {
	for _, v := range cells {
		if tt, ok := v.(*Term); ok && tt.Op == OpVar && e.ts.Vars[tt.C].Kind == "byte" {
			st.read |= 1 << tt.C
		}
	}
	st.hw = popcount(st.read)
}

func (e *Engine) modelBytesEqual(c *ctx, x *ssa.Call, args []Value) int {
	a, b := args[0].(Slice), args[1].(Slice)
	if a.Len != b.Len {
		e.set(c, x, Int(0))
		return stepNext
	}
	ca, cb := e.sliceCells(c.st, a), e.sliceCells(c.st, b)
	e.markRead(c.st, ca)
	e.markRead(c.st, cb)
	res := e.ts.True
	for i := range ca {
		res = e.ts.And(res, e.ts.Cmp(OpEq, e.toTerm(ca[i], 8), e.toTerm(cb[i], 8)))
	}
	if res.IsConst() {
		e.set(c, x, Int(res.C))
	} else {
		e.set(c, x, res)
	}
	return stepNext
}

// bytes.IndexByte: the result index must be concrete, so the state is split
// per position of the first occurrence.
func (e *Engine) modelIndexByte(c *ctx, x *ssa.Call, idx int, args []Value) int {
	s := args[0].(Slice)
	bt := e.toTerm(args[1], 8)
	cells := e.sliceCells(c.st, s)
	var results []Result
	cur := c.st
	alive := true
	for i, cv := range cells {
		e.markRead(cur, cells[i:i+1])
		eq := e.ts.Cmp(OpEq, e.toTerm(cv, 8), bt)
		if eq.IsConst() {
			if eq.C != 0 {
				results = append(results, Result{st: cur, ret: Int(uint64(i))})
				alive = false
				break
			}
			continue
		}
		neq := e.ts.Not(eq)
		hitC := e.g.filter(cur.cubes, eq)
		missC := e.g.filter(cur.cubes, neq)
		if len(hitC) > 0 {
			var hit *State
			if len(missC) > 0 {
				hit = cur.Fork()
				e.stats.Forks++
			} else {
				hit = cur
			}
			if len(missC) > 0 {
				hit.cubes, hit.gcache = hitC, nil
			}
			results = append(results, Result{st: hit, ret: Int(uint64(i))})
		}
		if len(missC) == 0 {
			alive = false
			break
		}
		if len(hitC) > 0 {
			cur.cubes, cur.gcache = missC, nil
		}
	}
	if alive {
		w, _ := intInfo(x.Type())
		results = append(results, Result{st: cur, ret: Int(^uint64(0) & wmask(w))})
	}
	return e.finishCall(c, x, idx, results)
}

// strings.Builder model: the builder struct's buf field ([]byte, second
// field) is used as the backing store.
func (e *Engine) builderBufPtr(recv Value) Ptr {
	p := recv.(Ptr)
	// type Builder struct { addr *Builder; buf []byte }
	return Ptr{Obj: p.Obj, Off: p.Off + 1}
}

func (e *Engine) modelBuilderWriteByte(c *ctx, x *ssa.Call, args []Value) int {
	bp := e.builderBufPtr(args[0])
	cur := c.st.heap.Load(bp).(Slice)
	var cells []Value
	if cur.Obj >= 0 {
		cells = append(cells, c.st.heap.objs[cur.Obj].cells[cur.Off:cur.Off+cur.Len]...)
	}
	cells = append(cells, args[1])
	id := c.st.heap.Alloc(cells, nil, "builder", false)
	c.st.allocLog = append(c.st.allocLog, id)
	c.st.heap.Store(bp, Slice{Obj: id, Len: int32(len(cells)), Cap: int32(len(cells)), ESz: 1})
	if cur.Obj >= 0 {
		// the old backing array is garbage now
		for i, a := range c.st.allocLog {
			if a == cur.Obj {
				c.st.allocLog = append(c.st.allocLog[:i:i], c.st.allocLog[i+1:]...)
				break
			}
		}
		c.st.heap.Free(cur.Obj)
	}
	e.set(c, x, Iface{})
	return stepNext
}

func (e *Engine) modelBuilderString(c *ctx, x *ssa.Call, args []Value) int {
	bp := e.builderBufPtr(args[0])
	cur := c.st.heap.Load(bp).(Slice)
	if cur.Obj < 0 {
		e.set(c, x, Str(""))
		return stepNext
	}
	e.set(c, x, e.sliceToString(c.st, cur))
	return stepNext
}

func popcount(x uint64) int {
	n := 0
	for x != 0 {
		x &= x - 1
		n++
	}
	return n
}

// ---------- harness intrinsics ----------

func (e *Engine) strArg(v Value) string {
	s, ok := v.(Str)
	if !ok {
		unsupported("intrinsic needs a constant string, got %T", v)
	}
	return string(s)
}

func (e *Engine) intArg(c *ctx, v Value) int {
	i, ok := v.(Int)
	if !ok {
		unsupported("intrinsic needs a concrete int, got %T", v)
	}
	return int(int64(i))
}

func (e *Engine) intrinsic(c *ctx, x *ssa.Call, idx int, name string, args []Value) (int, bool) {
	st := c.st
	switch name {
	case "vBytes":
		n := e.intArg(c, args[0])
		cells := make([]Value, n)
		for i := 0; i < n; i++ {
			if e.conc != nil {
				cells[i] = Int(uint64(vecAt(e.conc.Bytes, st.nBytes) & 0xff))
			} else {
				cells[i] = e.getVar(fmt.Sprintf("b%d", st.nBytes), 8, "byte")
			}
			st.nBytes++
		}
		id := st.heap.Alloc(cells, nil, "vBytes", false)
		st.allocLog = append(st.allocLog, id)
		e.set(c, x, Slice{Obj: id, Len: int32(n), Cap: int32(n), ESz: 1})
		return stepNext, true
	case "vByte":
		if e.conc != nil {
			e.set(c, x, Int(uint64(vecAt(e.conc.Bytes, st.nBytes)&0xff)))
		} else {
			e.set(c, x, e.getVar(fmt.Sprintf("b%d", st.nBytes), 8, "byte"))
		}
		st.nBytes++
		return stepNext, true
	case "vBool":
		if e.conc != nil {
			e.set(c, x, boolInt(vecAt(e.conc.Bools, st.nBool) != 0))
		} else {
			e.set(c, x, e.getVar(fmt.Sprintf("s%d", st.nBool), 0, "bool"))
		}
		st.nBool++
		return stepNext, true
	case "vU8":
		if e.conc != nil {
			e.set(c, x, Int(uint64(vecAt(e.conc.U8, st.nU8)&0xff)))
		} else {
			e.set(c, x, e.getVar(fmt.Sprintf("f%d", st.nU8), 8, "u8"))
		}
		st.nU8++
		return stepNext, true
	case "vU16":
		if e.conc != nil {
			e.set(c, x, Int(uint64(vecAt(e.conc.U16, st.nU16)&0xffff)))
		} else {
			e.set(c, x, e.getVar(fmt.Sprintf("h%d", st.nU16), 16, "u16"))
		}
		st.nU16++
		return stepNext, true
	case "vU32":
		if e.conc != nil {
			e.set(c, x, Int(uint64(vecAt(e.conc.U32, st.nU32))&0xffffffff))
		} else {
			e.set(c, x, e.getVar(fmt.Sprintf("w%d", st.nU32), 32, "u32"))
		}
		st.nU32++
		return stepNext, true
	case "vChoice":
		n := e.intArg(c, args[0])
		if n <= 0 {
			return stepStop, true
		}
		if e.conc != nil {
			v := vecAt(e.conc.Choices, st.nChoice)
			st.nChoice++
			if v >= n {
				v = n - 1
			}
			if v < 0 {
				v = 0
			}
			e.set(c, x, Int(uint64(v)))
			return stepNext, true
		}
		sel := e.getVar(fmt.Sprintf("c%d", st.nChoice), 8, "choice")
		st.nChoice++
		for i := 0; i < n; i++ {
			var st2 *State
			if i == n-1 {
				st2 = st
			} else {
				st2 = st.Fork()
			}
			var cond *Term
			if i == n-1 {
				// last arm takes every remaining selector value
				cond = e.ts.Cmp(OpULe, e.ts.Const(8, uint64(i)), sel)
			} else {
				cond = e.ts.Cmp(OpEq, sel, e.ts.Const(8, uint64(i)))
			}
			if !e.constrain(st2, cond) {
				continue
			}
			e.stats.Forks++
			c2 := e.cloneCtx(c, st2)
			e.set(c2, x, Int(uint64(i)))
			e.runFrom(c2, idx+1)
			e.putRegs(c.fi, c2.regs)
		}
		return stepStop, true
	case "vAssume":
		switch cv := args[0].(type) {
		case Int:
			if cv == 0 {
				return stepStop, true
			}
		case *Term:
			if !e.constrain(st, cv) {
				return stepStop, true
			}
		}
		e.set(c, x, nil)
		return stepNext, true
	case "vAssert", "vAssertKF":
		id := e.strArg(args[0])
		var condV, knownV Value
		kfid := ""
		if name == "vAssert" {
			condV = args[1]
		} else {
			kfid = e.strArg(args[1])
			condV = args[2]
			knownV = args[3]
		}
		as := e.asserts[id]
		if as == nil {
			as = &AssertStat{}
			e.asserts[id] = as
		}
		as.States++
		// observable for trace validation
		if e.conc != nil {
			if ci, ok := condV.(Int); ok {
				e.clog = append(e.clog, fmt.Sprintf("assert:%s=%d", id, ci))
			}
		}
		st.nObs++
		switch cv := condV.(type) {
		case Int:
			if cv != 0 {
				as.Trivial++
			} else {
				f := &Fail{ID: id, Kind: "assert", Snap: st.snap(), Where: e.pos(x), KFID: kfid}
				if knownV != nil {
					f.Known = e.toTerm(knownV, 0)
				}
				e.fails = append(e.fails, f)
			}
		case *Term:
			as.Symbolic++
			f := &Fail{ID: id, Kind: "assert", Snap: st.snap(), Cond: cv, Where: e.pos(x), KFID: kfid}
			if knownV != nil {
				f.Known = e.toTerm(knownV, 0)
			}
			e.fails = append(e.fails, f)
		}
		e.set(c, x, nil)
		return stepNext, true
	case "vReach":
		id := e.strArg(args[0])
		e.reach[id] = append(e.reach[id], st.snap())
		e.set(c, x, nil)
		return stepNext, true
	case "vObs":
		nm := e.strArg(args[0])
		if e.conc != nil {
			if ci, ok := args[1].(Int); ok {
				e.clog = append(e.clog, fmt.Sprintf("%s=%d", nm, int64(ci)))
			}
		}
		st.nObs++
		e.set(c, x, nil)
		return stepNext, true
	case "vAnd", "vOr":
		// non-short-circuit boolean connectives (no forking)
		ta, tb := e.toTerm(args[0], 0), e.toTerm(args[1], 0)
		var r *Term
		if name == "vAnd" {
			r = e.ts.And(ta, tb)
		} else {
			r = e.ts.Or(ta, tb)
		}
		if r.IsConst() {
			e.set(c, x, Int(r.C))
		} else {
			e.set(c, x, r)
		}
		return stepNext, true
	case "vIte":
		// vIte(c, a, b int) int without forking
		w := termW(x.Type())
		tc := e.toTerm(args[0], 0)
		r := e.ts.Ite(tc, e.toTerm(args[1], w), e.toTerm(args[2], w))
		if r.IsConst() {
			e.set(c, x, Int(r.C))
		} else {
			e.set(c, x, r)
		}
		return stepNext, true
	case "vPad":
		k := e.intArg(c, args[0])
		junk, text := args[1].(Slice), args[2].(Slice)
		jc, tc := e.sliceCells(st, junk), e.sliceCells(st, text)
		j := min(len(jc), k)
		cells := make([]Value, 0, k+len(tc))
		for i := 0; i < k-j; i++ {
			cells = append(cells, Int(0xAA))
		}
		cells = append(cells, jc[len(jc)-j:]...)
		cells = append(cells, tc...)
		id := st.heap.Alloc(cells, nil, "vPad", false)
		st.allocLog = append(st.allocLog, id)
		e.set(c, x, Slice{Obj: id, Len: int32(len(cells)), Cap: int32(len(cells)), ESz: 1})
		return stepNext, true
	case "vBytesEq":
		// symbolic equality of two byte slices (lengths concrete)
		return e.modelBytesEqual(c, x, args), true
	}
	return 0, false
}

func vecAt(v []int, i int) int {
	if i < len(v) {
		return v[i]
	}
	return 0
}
