#!/usr/bin/env python3
# Regenerates the generated tables of DESIGN.md: section 4 (from `bin/sver
# bounds`, i.e. from sver/checks.go) and the table of section 10 (from
# seeded/*/meta.json and seeded/notes.json).
import json, os, re, subprocess, glob
os.chdir(os.path.dirname(os.path.abspath(__file__)))
d = open('DESIGN.md').read()
tab4 = subprocess.run(['bin/sver', 'bounds'], capture_output=True, text=True, check=True).stdout.strip()
d = re.sub(r'\| id \| jobs quick / thorough \|.*?\n\n', tab4 + '\n\n', d, count=1, flags=re.S)
notes = json.load(open('seeded/notes.json'))
rows = ['| seeded change | breaks | file | quick checks with the change applied (exit 1 = VIOLATION) | note |', '|---|---|---|---|---|']
for m in sorted(glob.glob('seeded/*/meta.json')):
    j = json.load(open(m))
    name = j['name']
    files = sorted(set(re.findall(r'^\+\+\+ b/(\S+)', open(os.path.dirname(m) + '/patch.diff').read(), flags=re.M)))
    chk = ', '.join('%s: exit %d' % (c['property'], c['exit']) for c in j['checks_run'])
    rows.append('| %s | %s | %s | %s | %s |' % (name, j['breaks_property'], ' '.join(files), chk, notes.get(name, '')))
d = re.sub(r'\| seeded change \| breaks \|.*?(\n\n|\Z)', '\n'.join(rows) + '\n\n', d, count=1, flags=re.S)
open('DESIGN.md', 'w').write(d)
print('section 4:', tab4.count('\n') - 1, 'rows; section 10:', len(rows) - 2, 'rows')
